"""Contracts on the grammar actions of pysmi/parser/smi.py (C02; feeds C01, C05, C06, C15, C16, C17).

For every production (read from the PLY docstring of the real p_* method on every run) and every
alternative, the action is executed symbolically with p[i] = the value of the i-th right-hand-side symbol
and the obligation is

    p[0] == EXPECTED[rule][alternative]        (an expression over the RHS symbols *by name*)
    Val(rule)(p[0])                            (the value type of the left-hand side)

under the assumption Val(X)(value of X) for every RHS symbol X (rely/guarantee over the parse tree, sound
by induction on the derivation).  Names, not positions: a consistent renumbering of a production does not
disturb the contract, a swapped, dropped or duplicated slot does.  Terminal values: identifiers are
non-empty strings, NUMBER tokens are integers of the sign of their class, QUOTED_STRING/HEX/BIN strings
have their quotes, keyword tokens carry the reserved word itself, literals carry themselves.

Productions whose actions are commented out in the source yield None *by design* (SUBJECT-CATEGORIES,
SUPPORTS/VARIATION of AGENT-CAPABILITIES, compliance OBJECT refinements, type tags, OID-valued DEFVAL):
they are listed in NOT_REPRESENTED; the contract for them is ``p[0] is None`` so that a production
joining or leaving that set is noticed.
"""
import ast
import os
import z3
from pyvc.contract import *
from pyvc import pv
from pyvc.pv import PV, SStr, SInt, SAny, VList
from pyvc.extract import SourceFile, docstring_of

FILE = 'pysmi/parser/smi.py'

# ------------------------------------------------------------------ value types
ID = 'ident'
TEXT = 'text'
NAT = 'nat'
INT = 'int'
NONE = 'none'
ANY = 'any'
TAGT = 'tagtuple'          # non-empty tuple whose first element is a non-empty string


def T(*a):
    return ('tuple',) + a


def Tag(name, *a):
    return ('tuple', ('const', name)) + a


def L1(t):
    return ('list1', t)


def Opt(t):
    return ('or', NONE, t)


def Or(*a):
    return ('or',) + a


SUBID = Or(ID, NAT, T(ID, NAT))
OID = Tag('objectIdentifier', L1(SUBID))
KWTEXT = T(ID, TEXT)
STATUS = Tag('Status', ID)
RANGEV = Or(INT, ID)                      # number or 'xx'H / 'xx'B literal (a non-empty string)
RANGE = Or(T(RANGEV), T(RANGEV, RANGEV))
SUBTYPE = Or(Tag('integerSubType', L1(RANGE)), Tag('octetStringSubType', L1(RANGE)),
             Tag('enumSpec', L1(T(ID, INT))))
IMPORTS = 'dict1'
IDX = Or(ID, NAT, T(ID, NAT), OID)     # INDEX entry: first sub-identifier, SMIv1 type name, or (quirk) the whole OID

TYPES = {
    'empty': NONE,
    'modules': L1(ANY), 'module': T(ID, Opt(OID), Opt(IMPORTS), Opt(L1(ANY))),
    'mibFile': Tag('mibFile', Opt(L1(ANY))),
    'moduleOid': Opt(OID), 'objectIdentifier': OID, 'ObjectName': OID, 'NotificationName': OID,
    'subidentifiers': L1(SUBID), 'subidentifier': SUBID, 'fuzzy_lowercase_identifier': ID,
    'linkagePart': Opt(IMPORTS), 'linkageClause': Opt(IMPORTS), 'importPart': Opt(IMPORTS),
    'imports': L1(T(ID, L1(ID))), 'import': T(ID, L1(ID)), 'importIdentifiers': L1(ID),
    'importIdentifier': ID, 'importedKeyword': ID, 'importedSMIKeyword': ID, 'moduleName': ID,
    'exportsClause': NONE, 'macroClause': NONE, 'macroName': NONE, 'choiceClause': NONE,
    'declarationPart': Opt(L1(Opt(TAGT))), 'declarations': L1(Opt(TAGT)), 'declaration': Opt(TAGT),
    'valueDeclaration': Tag('valueDeclaration', ID, OID),
    'typeDeclaration': Tag('typeDeclaration', ID, Opt(TAGT)),
    'typeName': ID, 'typeSMI': ID, 'typeSMIandSPPI': ID, 'typeSMIonly': ID,
    'typeDeclarationRHS': Opt(TAGT),
    'Syntax': TAGT, 'ObjectSyntax': TAGT, 'SimpleSyntax': TAGT, 'ApplicationSyntax': TAGT,
    'conceptualTable': Tag('conceptualTable', Tag('row', ID)), 'row': Tag('row', ID),
    'entryType': T(('const', 'SEQUENCE'), L1(T(ID, ID))),
    'sequenceItems': L1(T(ID, ID)), 'sequenceItem': T(ID, ID), 'sequenceSyntax': ID,
    'sequenceObjectSyntax': ID, 'sequenceSimpleSyntax': ID, 'sequenceApplicationSyntax': ID,
    'NamedBits': L1(T(ID, NAT)), 'NamedBit': T(ID, NAT),
    'descriptionClause': Opt(KWTEXT), 'DescrPart': Opt(KWTEXT), 'UnitsPart': Opt(KWTEXT),
    'DisplayPart': Opt(KWTEXT), 'ReferPart': Opt(KWTEXT), 'Text': TEXT, 'ExtUTCTime': TEXT,
    'Status': STATUS, 'Access': ID, 'MaxAccessPart': Tag('MaxAccessPart', ID),
    'MaxOrPIBAccessPart': Opt(Tag('MaxAccessPart', ID)),
    'VarTypes': Tag('VarTypes', L1(SUBID)), 'VarType': SUBID, 'VarPart': Or(Tag('VarTypes', L1(SUBID)), 'emptylist'),
    'Objects': Tag('Objects', L1(SUBID)), 'Object': SUBID,
    'NotificationObjectsPart': Or(Tag('Objects', L1(SUBID)), 'emptylist'),
    'ObjectGroupObjectsPart': Tag('Objects', L1(SUBID)),
    'Notifications': Tag('Notifications', L1(SUBID)), 'Notification': SUBID,
    'NotificationsPart': Tag('Notifications', L1(SUBID)),
    'anySubType': Opt(SUBTYPE), 'integerSubType': Tag('integerSubType', L1(RANGE)),
    'octetStringSubType': Tag('octetStringSubType', L1(RANGE)), 'ranges': L1(RANGE), 'range': RANGE,
    'value': RANGEV, 'enumSpec': Tag('enumSpec', L1(T(ID, INT))), 'enumItems': L1(T(ID, INT)),
    'enumItem': T(ID, INT), 'enumNumber': INT,
    'IndexPart': Opt(SUBID), 'Entry': SUBID, 'Index': IDX, 'IndexType': T(Or(('const', 0), ('const', 1)), IDX),
    'IndexTypes': L1(T(Or(('const', 0), ('const', 1)), IDX)),
    'MibIndex': Opt(T(('const', 'INDEX'), L1(T(Or(('const', 0), ('const', 1)), IDX)))),
    'BitNames': Tag('BitNames', L1(ID)), 'BitsValue': Opt(Tag('BitNames', L1(ID))),
    'valueofSimpleSyntax': Opt(Or(INT, ID)), 'valueofObjectSyntax': Opt(Or(INT, ID)),
    'Value': Opt(Or(INT, ID, Tag('BitNames', L1(ID)))),
    'DefValPart': Opt(T(('const', 'DEFVAL'), Or(INT, ID, Tag('BitNames', L1(ID))))),
    'RevisionPart': Opt(Tag('Revisions', L1(T(TEXT, KWTEXT)))), 'Revisions': Tag('Revisions', L1(T(TEXT, KWTEXT))),
    'Revision': T(TEXT, KWTEXT),
    'ComplianceModulePart': Tag('ComplianceModules', L1(T(Opt(ID), ('list', SUBID)))),
    'ComplianceModules': Tag('ComplianceModules', L1(T(Opt(ID), ('list', SUBID)))),
    'ComplianceModule': T(Opt(ID), ('list', SUBID)), 'ComplianceModuleName': Opt(ID),
    'MandatoryPart': Opt(Tag('MandatoryGroups', L1(SUBID))), 'MandatoryGroups': Tag('MandatoryGroups', L1(SUBID)),
    'MandatoryGroup': SUBID,
    'CompliancePart': Opt(Tag('Compliances', L1(SUBID))), 'Compliances': Opt(Tag('Compliances', L1(SUBID))),
    'Compliance': Opt(Or(ID, ('posnat',), T(ID, NAT))), 'ComplianceGroup': SUBID, 'ComplianceObject': NONE,
    'SyntaxPart': Opt(TAGT), 'WriteSyntaxPart': Opt(TAGT), 'WriteSyntax': Tag('WriteSyntax', TAGT),
    'AccessPart': Opt(T(ID, ID)),
    'CreationPart': Opt(T(ID, ANY)), 'Cells': Tag('Cells', L1(Tag('Cell', OID))), 'Cell': Tag('Cell', OID),
    'objectIdentifier_defval': Tag('objectIdentifier_defval', TAGT),
    'subidentifiers_defval': Tag('subidentifiers_defval', L1(TAGT)), 'subidentifier_defval': TAGT,
    'EnterprisePart': OID, 'typeSMIv1': ID,
}

for _c in ('objectIdentityClause', 'objectTypeClause', 'trapTypeClause', 'notificationTypeClause',
           'moduleIdentityClause', 'moduleComplianceClause', 'objectGroupClause', 'notificationGroupClause',
           'agentCapabilitiesClause'):
    TYPES[_c] = TAGT

NOT_REPRESENTED = ['SubjectCategoriesPart', 'SubjectCategories', 'CategoryIDs', 'CategoryID', 'typeTag',
                   'ModulePart_Capabilities', 'Modules_Capabilities', 'Module_Capabilities', 'CapabilitiesGroups',
                   'CapabilitiesGroup', 'ModuleName_Capabilities', 'VariationPart', 'Variations', 'Variation',
                   'VariationAccessPart', 'VariationAccess', 'ComplianceObject', 'exportsClause', 'macroClause',
                   'macroName', 'choiceClause', 'empty']
for _n in NOT_REPRESENTED:
    TYPES[_n] = NONE

# ------------------------------------------------------------------ expected trees, per alternative
# names = RHS symbols; a symbol occurring k>1 times is written X_1 .. X_k; token names stand for token values
PASS = 'PASS'      # single-symbol alternatives: the value is handed on unchanged
E = {
    'mibFile': ["('mibFile', modules)", "('mibFile', None)"],
    'modules': ["modules + [module]", "[module]"],
    'module': ["(moduleName, moduleOid, linkagePart, declarationPart)"],
    'moduleOid': ["objectIdentifier", "None"],
    'linkagePart': [PASS, "None"], 'linkageClause': ["importPart"],
    'imports': ["imports + [import_]", "[import_]"], 'import': ["(moduleName, importIdentifiers)"],
    'importIdentifiers': ["importIdentifiers + [importIdentifier]", "[importIdentifier]"],
    'importIdentifier': [PASS] * 3, 'importedKeyword': [PASS] * 14, 'importedSMIKeyword': [PASS] * 7,
    'moduleName': [PASS],
    'declarationPart': [PASS, "None"], 'declarations': ["declarations + [declaration]", "[declaration]"],
    'declaration': [PASS] * 11 + ["None"],
    'fuzzy_lowercase_identifier': [PASS] * 2,
    'valueDeclaration': ["('valueDeclaration', fuzzy_lowercase_identifier, objectIdentifier)"],
    'typeDeclaration': ["('typeDeclaration', typeName, typeDeclarationRHS)"],
    'typeName': [PASS] * 2, 'typeSMI': [PASS] * 2, 'typeSMIandSPPI': [PASS] * 5, 'typeSMIonly': [PASS] * 3,
    'typeDeclarationRHS': ["('typeDeclarationRHS', Syntax)",
                           "('typeDeclarationRHS', DisplayPart, Status, (DESCRIPTION, Text), ReferPart, Syntax)",
                           "None"],
    'conceptualTable': ["('conceptualTable', row)"], 'row': ["('row', UPPERCASE_IDENTIFIER)"],
    'entryType': ["(SEQUENCE, sequenceItems)"],
    'sequenceItems': ["sequenceItems + [sequenceItem]", "[sequenceItem]"],
    'sequenceItem': ["(LOWERCASE_IDENTIFIER, sequenceSyntax)"],
    'Syntax': [PASS, "(BITS, NamedBits)"],
    'sequenceSyntax': [PASS, "UPPERCASE_IDENTIFIER", PASS],
    'NamedBits': ["NamedBits + [NamedBit]", "[NamedBit]"], 'NamedBit': ["(LOWERCASE_IDENTIFIER, NUMBER)"],
    'objectIdentityClause': ["('objectIdentityClause', LOWERCASE_IDENTIFIER, Status, (DESCRIPTION, Text), ReferPart, "
                             "objectIdentifier)"],
    'objectTypeClause': ["('objectTypeClause', LOWERCASE_IDENTIFIER, Syntax, UnitsPart, MaxOrPIBAccessPart, Status, "
                         "descriptionClause, ReferPart, IndexPart, MibIndex, DefValPart, ObjectName)"],
    'descriptionClause': ["(DESCRIPTION, Text)", "None"],
    'trapTypeClause': ["('trapTypeClause', fuzzy_lowercase_identifier, objectIdentifier, VarPart, DescrPart, ReferPart, "
                       "NUMBER)"],
    'VarPart': ["VarTypes", "[]"], 'VarTypes': ["('VarTypes', VarTypes[1] + [VarType])", "('VarTypes', [VarType])"],
    'VarType': ["ObjectName[1][0]"],
    'DescrPart': ["(DESCRIPTION, Text)", "None"],
    'MaxOrPIBAccessPart': [PASS, "None"],
    'MaxAccessPart': ["('MaxAccessPart', Access)", "('MaxAccessPart', Access)"],
    'notificationTypeClause': ["('notificationTypeClause', LOWERCASE_IDENTIFIER, NotificationObjectsPart, Status, "
                               "(DESCRIPTION, Text), ReferPart, NotificationName)"],
    'moduleIdentityClause': ["('moduleIdentityClause', LOWERCASE_IDENTIFIER, (LAST_UPDATED, ExtUTCTime), "
                             "(ORGANIZATION, Text_1), (CONTACT_INFO, Text_2), (DESCRIPTION, Text_3), RevisionPart, "
                             "objectIdentifier)"],
    'ObjectSyntax': [PASS] * 5 + ["SimpleSyntax"],
    'sequenceObjectSyntax': [PASS] * 2, 'valueofObjectSyntax': [PASS],
    'SimpleSyntax': ["('SimpleSyntax', INTEGER)", "('SimpleSyntax', INTEGER, integerSubType)",
                     "('SimpleSyntax', INTEGER, enumSpec)", "('SimpleSyntax', INTEGER32)",
                     "('SimpleSyntax', INTEGER32, integerSubType)", "('SimpleSyntax', UPPERCASE_IDENTIFIER, enumSpec)",
                     "('SimpleSyntax', UPPERCASE_IDENTIFIER, integerSubType)", "('SimpleSyntax', OCTET + ' ' + STRING)",
                     "('SimpleSyntax', OCTET + ' ' + STRING, octetStringSubType)",
                     "('SimpleSyntax', UPPERCASE_IDENTIFIER, octetStringSubType)",
                     "('SimpleSyntax', OBJECT + ' ' + IDENTIFIER, anySubType)"],
    'valueofSimpleSyntax': [PASS] * 8 + ["None"],
    'sequenceSimpleSyntax': ["INTEGER", "INTEGER32", "OCTET + ' ' + STRING", "OBJECT + ' ' + IDENTIFIER"],
    'ApplicationSyntax': ["('ApplicationSyntax', IPADDRESS, anySubType)", "('ApplicationSyntax', COUNTER32)",
                          "('ApplicationSyntax', COUNTER32, integerSubType)", "('ApplicationSyntax', GAUGE32)",
                          "('ApplicationSyntax', GAUGE32, integerSubType)", "('ApplicationSyntax', UNSIGNED32)",
                          "('ApplicationSyntax', UNSIGNED32, integerSubType)",
                          "('ApplicationSyntax', TIMETICKS, anySubType)", "('ApplicationSyntax', OPAQUE)",
                          "('ApplicationSyntax', OPAQUE, octetStringSubType)", "('ApplicationSyntax', COUNTER64)",
                          "('ApplicationSyntax', COUNTER64, integerSubType)"],
    'sequenceApplicationSyntax': ["IPADDRESS", "COUNTER32", "GAUGE32", "UNSIGNED32", "TIMETICKS", "OPAQUE", "COUNTER64"],
    'anySubType': [PASS, PASS, PASS, "None"],
    'integerSubType': ["('integerSubType', ranges)"], 'octetStringSubType': ["('octetStringSubType', ranges)"],
    'ranges': ["ranges + [range_]", "[range_]"], 'range': ["(value_1, value_2)", "(value,)"],
    'value': [PASS] * 6,
    'enumSpec': ["('enumSpec', enumItems)"], 'enumItems': ["enumItems + [enumItem]", "[enumItem]"],
    'enumItem': ["(LOWERCASE_IDENTIFIER, enumNumber)"], 'enumNumber': [PASS] * 2,
    'Status': ["('Status', LOWERCASE_IDENTIFIER)"],
    'DisplayPart': ["(DISPLAY_HINT, Text)", "None"], 'UnitsPart': ["(UNITS, Text)", "None"],
    'Access': [PASS],
    'IndexPart': ["Entry", "None"], 'MibIndex': ["(INDEX, IndexTypes)", "None"],
    'IndexTypes': ["IndexTypes + [IndexType]", "[IndexType]"], 'IndexType': ["(1, Index)", "(0, Index)"],
    'Index': ["ObjectName[1][0]"], 'Entry': ["ObjectName[1][0]"],
    # a DEFVAL whose value has no representation (OID-valued, empty bit list) has none either
    'DefValPart': ["ite(is_none(Value), None, (DEFVAL, Value))", "None"],
    'Value': [PASS, "BitsValue"], 'BitsValue': [PASS, "None"],
    'BitNames': ["('BitNames', BitNames[1] + [LOWERCASE_IDENTIFIER])", "('BitNames', [LOWERCASE_IDENTIFIER])"],
    'ObjectName': [PASS], 'NotificationName': [PASS],
    'ReferPart': ["(REFERENCE, Text)", "None"], 'RevisionPart': [PASS, "None"],
    'Revisions': ["('Revisions', Revisions[1] + [Revision])", "('Revisions', [Revision])"],
    'Revision': ["(ExtUTCTime, (DESCRIPTION, Text))"],
    'NotificationObjectsPart': ["Objects", "[]"], 'ObjectGroupObjectsPart': ["Objects"],
    'Objects': ["('Objects', Objects[1] + [Object])", "('Objects', [Object])"], 'Object': ["ObjectName[1][0]"],
    'NotificationsPart': ["Notifications"],
    'Notifications': ["('Notifications', Notifications[1] + [Notification])", "('Notifications', [Notification])"],
    'Notification': ["NotificationName[1][0]"],
    # the text between the two quotes, unchanged
    'Text': ["ENS:same(QUOTED_STRING, '\"' + p[0] + '\"')"], 'ExtUTCTime': ["ENS:same(QUOTED_STRING, '\"' + p[0] + '\"')"],
    'objectIdentifier': ["('objectIdentifier', subidentifiers)"],
    'subidentifiers': ["subidentifiers + [subidentifier]", "[subidentifier]"],
    'subidentifier': [PASS, PASS, "(LOWERCASE_IDENTIFIER, NUMBER)"],
    'objectIdentifier_defval': ["('objectIdentifier_defval', subidentifiers_defval)"],
    'subidentifiers_defval': ["('subidentifiers_defval', subidentifiers_defval[1] + [subidentifier_defval])",
                              "('subidentifiers_defval', [subidentifier_defval])"],
    'subidentifier_defval': ["('subidentifier_defval', LOWERCASE_IDENTIFIER, NUMBER)", "('subidentifier_defval', NUMBER)"],
    'objectGroupClause': ["('objectGroupClause', LOWERCASE_IDENTIFIER, ObjectGroupObjectsPart, Status, "
                          "(DESCRIPTION, Text), ReferPart, objectIdentifier)"],
    'notificationGroupClause': ["('notificationGroupClause', LOWERCASE_IDENTIFIER, NotificationsPart, Status, "
                                "(DESCRIPTION, Text), ReferPart, objectIdentifier)"],
    'moduleComplianceClause': ["('moduleComplianceClause', LOWERCASE_IDENTIFIER, Status, (DESCRIPTION, Text), ReferPart, "
                               "ComplianceModulePart, objectIdentifier)"],
    'ComplianceModulePart': [PASS],
    'ComplianceModules': ["('ComplianceModules', ComplianceModules[1] + [ComplianceModule])",
                          "('ComplianceModules', [ComplianceModule])"],
    'ComplianceModule': ["(ComplianceModuleName, GROUPS(MandatoryPart, CompliancePart))"],
    'ComplianceModuleName': [PASS, "None"],
    'MandatoryPart': ["MandatoryGroups", "None"],
    'MandatoryGroups': ["('MandatoryGroups', MandatoryGroups[1] + [MandatoryGroup])", "('MandatoryGroups', [MandatoryGroup])"],
    'MandatoryGroup': ["objectIdentifier[1][0]"],
    'CompliancePart': [PASS, "None"],
    # the groups named by GROUP clauses, in order; OBJECT refinements (not represented) are skipped
    'Compliances': ["APPEND_GROUP(Compliances, Compliance)", "APPEND_GROUP(None, Compliance)"],
    # (a GROUP clause naming the bare number 0 is not a group reference: falsy values are dropped)
    'Compliance': ["ite(truthy(ComplianceGroup), ComplianceGroup, None)", "None"],
    'ComplianceGroup': ["objectIdentifier[1][0]"],
    'SyntaxPart': ["Syntax", "None"], 'WriteSyntaxPart': ["WriteSyntax", "None"], 'WriteSyntax': ["('WriteSyntax', Syntax)"],
    'AccessPart': ["(MIN_ACCESS, Access)", "None"],
    'agentCapabilitiesClause': ["('agentCapabilitiesClause', LOWERCASE_IDENTIFIER, (PRODUCT_RELEASE, Text_1), Status, "
                                "(DESCRIPTION, Text_2), ReferPart, objectIdentifier)"],
    'CreationPart': ["(CREATION_REQUIRES, Cells)", "None"],
    'Cells': ["('Cells', Cells[1] + [Cell])", "('Cells', [Cell])"], 'Cell': ["('Cell', ObjectName)"],
}

# relaxed dialect rules (classes of the same file); same TYPES
RELAXED = {
    'SupportSmiV1Keywords.p_importedKeyword': ('importedKeyword', [PASS] * 15),
    'SupportSmiV1Keywords.p_typeSMIandSPPI': ('typeSMIandSPPI', [PASS] * 6),
    'SupportSmiV1Keywords.p_ApplicationSyntax': ('ApplicationSyntax', [
        "('ApplicationSyntax', IPADDRESS, anySubType)", "('ApplicationSyntax', NETWORKADDRESS, anySubType)",
        "('ApplicationSyntax', COUNTER32)", "('ApplicationSyntax', COUNTER32, integerSubType)",
        "('ApplicationSyntax', GAUGE32)", "('ApplicationSyntax', GAUGE32, integerSubType)",
        "('ApplicationSyntax', UNSIGNED32)", "('ApplicationSyntax', UNSIGNED32, integerSubType)",
        "('ApplicationSyntax', TIMETICKS, anySubType)", "('ApplicationSyntax', OPAQUE)",
        "('ApplicationSyntax', OPAQUE, octetStringSubType)", "('ApplicationSyntax', COUNTER64)",
        "('ApplicationSyntax', COUNTER64, integerSubType)"]),
    'SupportSmiV1Keywords.p_sequenceApplicationSyntax': ('sequenceApplicationSyntax', [
        "IPADDRESS", "NETWORKADDRESS", "COUNTER32", "GAUGE32", "UNSIGNED32", "TIMETICKS", "OPAQUE", "COUNTER64"]),
    'SupportIndex.p_Index': ('Index', ["ObjectName[1][0]", "typeSMIv1"]),
    'SupportIndex.p_typeSMIv1': ('typeSMIv1', ["INTEGER", "OCTET + ' ' + STRING", "IPADDRESS", "NETWORKADDRESS"]),
    'CommaInImport.p_importIdentifiers': ('importIdentifiers', [
        "importIdentifiers + [importIdentifier]", "[importIdentifier]", "importIdentifiers"]),
    'CommaInSequence.p_sequenceItems': ('sequenceItems', [
        "sequenceItems + [sequenceItem]", "[sequenceItem]", "sequenceItems"]),
    'CommaAndSpaces.p_enumItems': ('enumItems', [
        "enumItems + [enumItem]", "[enumItem]", "enumItems + [enumItem]", "enumItems"]),
    'UppercaseIdentifier.p_enumItem': ('enumItem', ["(LOWERCASE_IDENTIFIER, enumNumber)",
                                                    "(UPPERCASE_IDENTIFIER, enumNumber)"]),
    'LowcaseIdentifier.p_notificationTypeClause': ('notificationTypeClause', [
        "('notificationTypeClause', fuzzy_lowercase_identifier, NotificationObjectsPart, Status, "
        "(DESCRIPTION, Text), ReferPart, NotificationName)"]),
    'CurlyBracesInEnterprises.p_trapTypeClause': ('trapTypeClause', [
        "('trapTypeClause', fuzzy_lowercase_identifier, EnterprisePart, VarPart, DescrPart, ReferPart, NUMBER)"]),
    'CurlyBracesInEnterprises.p_EnterprisePart': ('EnterprisePart', ["objectIdentifier", "objectIdentifier"]),
    'NoCells.p_CreationPart': ('CreationPart', ["(CREATION_REQUIRES, Cells)", "None", "None"]),
}


# ------------------------------------------------------------------ type predicates over PyVal terms
def pred(t, x, ctx, depth=0):
    """z3 Bool: the PyVal term x has value type t"""
    if t == ANY:
        return x != pv.PAbsent
    if t == NONE:
        return PV.is_PNone(x)
    if t == ID:
        return z3.And(PV.is_PStr(x), z3.Length(PV.s(x)) > 0)
    if t == TEXT:
        return PV.is_PStr(x)
    if t == NAT:
        return z3.And(PV.is_PInt(x), PV.i(x) >= 0)
    if t == INT:
        return PV.is_PInt(x)
    if t == TAGT:
        return z3.And(PV.is_PTuple(x), z3.Length(PV.titems(x)) >= 1, PV.is_PStr(PV.titems(x)[0]),
                      z3.Length(PV.s(PV.titems(x)[0])) > 0)
    if t == 'dict1':
        return z3.And(PV.is_PDict(x), z3.Length(PV.dkeys(x)) > 0)
    if t == 'emptylist':
        return z3.And(PV.is_PList(x), z3.Length(PV.litems(x)) == 0)
    k = t[0]
    if k == 'posnat':
        return z3.And(PV.is_PInt(x), PV.i(x) > 0)
    if k == 'const':
        return x == pv.lift(t[1])
    if k == 'or':
        return z3.Or(*[pred(a, x, ctx, depth) for a in t[1:]])
    if k == 'tuple':
        items = PV.titems(x)
        return z3.And(PV.is_PTuple(x), z3.Length(items) == len(t) - 1,
                      *[pred(a, items[i], ctx, depth) for i, a in enumerate(t[1:])])
    if k in ('list', 'list1'):
        items = pv.ssimp(PV.litems(x))
        conj = [PV.is_PList(x)]
        # a goal about  xs ++ [y]  is decomposed structurally (no induction needed, no nth-of-concat reasoning)
        parts = []

        def flat(sq):
            if z3.is_app(sq) and sq.decl().kind() == z3.Z3_OP_SEQ_CONCAT:
                for c in sq.children():
                    flat(c)
            else:
                parts.append(sq)
        flat(items)
        for part in parts:
            kd = part.decl().kind() if z3.is_app(part) else None
            if kd == z3.Z3_OP_SEQ_UNIT:
                conj.append(pred(t[1], part.arg(0), ctx, depth + 1))
            elif kd == z3.Z3_OP_SEQ_EMPTY:
                continue
            else:
                i = ctx.fresh(z3.IntSort(), 'ti')
                body = pred(t[1], part[i], ctx, depth + 1)
                conj.append(z3.ForAll([i], z3.Implies(z3.And(i >= 0, i < z3.Length(part)), body)))
        if k == 'list1':
            conj.append(z3.Length(items) >= 1)
        return z3.And(*conj)
    raise ValueError('type %r' % (t,))


# ------------------------------------------------------------------ terminals
def terminal_value(it, name, reserved):
    """value of a token of this type (None when name is not a terminal)"""
    ctx = it.ctx
    if len(name) == 3 and name[0] == name[2] == "'":
        return name[1]
    if name in ('LOWERCASE_IDENTIFIER', 'UPPERCASE_IDENTIFIER'):
        s = it.fresh_str(name)
        ctx.assume(z3.Length(s.t) > 0)
        # a reserved word is never lexed as an identifier
        for w in reserved:
            ctx.assume(s.t != z3.StringVal(w))
        for w in ('MACRO', 'EXPORTS', 'CHOICE'):
            ctx.assume(s.t != z3.StringVal(w))
        return s
    if name in ('NUMBER', 'NUMBER64'):
        n = it.fresh_int(name)
        ctx.assume(n.t >= 0)
        return n
    if name in ('NEGATIVENUMBER', 'NEGATIVENUMBER64'):
        n = it.fresh_int(name)
        ctx.assume(n.t < 0)
        return n
    if name == 'QUOTED_STRING':
        s = it.fresh_str(name)
        body = it.fresh_str(name + '.body')
        ctx.assume(s.t == z3.Concat(z3.StringVal('"'), body.t, z3.StringVal('"')))
        ctx.assume(z3.Not(z3.Contains(body.t, z3.StringVal('"'))))
        return s
    if name in ('HEX_STRING', 'BIN_STRING'):
        s = it.fresh_str(name)
        ctx.assume(z3.Length(s.t) >= 3)
        return s
    if name == 'COLON_COLON_EQUAL':
        return '::='
    if name == 'DOT_DOT':
        return '..'
    if name in ('MACRO', 'EXPORTS', 'CHOICE'):
        return name
    words = [w for w, tok in reserved.items() if tok == name]
    if words:
        if len(words) == 1:
            return words[0]
        s = it.fresh_str(name)
        ctx.assume(z3.Or(*[s.t == z3.StringVal(w) for w in words]))
        return s
    return None


def split_production(doc):
    doc = doc.replace("'|'", "'\x00'")
    lhs, rhs = doc.split(':', 1)
    alts = []
    for a in rhs.split('|'):
        syms = [s.replace('\x00', '|') for s in a.split()]
        alts.append(syms)
    return lhs.strip(), alts


# not under contract: its action merges duplicate module names of the IMPORTS clause in a loop over a dict;
# its value type (a non-empty dict) is an assumption of the rules that use it
ASSUMED_RULES = ['importPart']

RESERVED_CACHE = {}


def reserved_words(it, dialect_v1):
    """token table of the lexer class, evaluated from the class body of the real source"""
    key = dialect_v1
    if key not in RESERVED_CACHE:
        import subprocess, json, sys
        repo = os.environ.get('VERIF_REPO', '/repo')
        code = ('import json,sys; sys.path.insert(0, %r); from pysmi.lexer import smi; '
                'print(json.dumps([smi.SmiV2Lexer.reserved, smi.SupportSmiV1Keywords.reserved()]))' % repo)
        out = subprocess.run(['/venv/bin/python', '-c', code], capture_output=True, text=True, check=True).stdout
        v2, v1 = json.loads(out)
        RESERVED_CACHE[False], RESERVED_CACHE[True] = v2, v1
    return RESERVED_CACHE[key]


def make_setup(rule, syms, expected, v1):
    def setup(it, env):
        ctx = it.ctx
        reserved = reserved_words(it, v1)
        vals = [None]
        names = {}
        counts = {}
        for s in syms:
            counts[s] = counts.get(s, 0) + 1
        seen = {}
        for s in syms:
            if s == 'empty':
                v = None
            else:
                v = terminal_value(it, s, reserved)
                if v is None:
                    t = TYPES.get(s)
                    if t is None:
                        raise pv.Unsupported('no value type declared for grammar symbol %s' % s)
                    v = it.fresh_any(s)
                    ctx.assume(pred(t, v.t, ctx))
            vals.append(v)
            seen[s] = seen.get(s, 0) + 1
            nm = s if counts[s] == 1 else '%s_%d' % (s, seen[s])
            if nm in ('import', 'range'):
                nm += '_'
            if nm.isidentifier():
                names[nm] = v
        p = VList(vals)
        env.set('p', p)
        if len(vals) > 1:
            env.set('p1', vals[1])
        for k, v in names.items():
            env.set(k, v)
        nd = pv.VDict()
        for k, v in names.items():
            nd.keys.append(k)
            nd.vals[k] = v
        env.set('__names__', nd)
    return setup


SPEC_HELPERS = {
    # (name, groups) of a MandatoryPart / CompliancePart value -> list of groups
    'GROUPS_OF': 'lambda part: part[1] if truthy(part) else []',
}


def build_contracts():
    src = SourceFile.get(FILE)
    out = []
    targets = []
    cls = src.find('SmiV2Parser')
    for f in cls.body:
        if isinstance(f, ast.FunctionDef) and f.name.startswith('p_') and f.name != 'p_error':
            targets.append(('SmiV2Parser.' + f.name, f, None))
    for qn in RELAXED:
        node = src.find(qn)
        if node is not None:
            targets.append((qn, node, RELAXED[qn]))
    for qn, node, relaxed in targets:
        doc = docstring_of(node)
        if not doc:
            continue
        rule, alts = split_production(doc)
        if rule in ASSUMED_RULES and relaxed is None:
            continue
        if relaxed is not None:
            exp = relaxed[1]
        elif rule in NOT_REPRESENTED:
            exp = ['None'] * len(alts)
        else:
            exp = E.get(rule)
        if exp is None or len(exp) != len(alts):
            # a production without (or with a mismatching number of) expected trees is reported, not skipped
            out.append(Contract(id='parser.' + qn.split('.')[-1] + ('' if relaxed is None else '@' + qn.split('.')[0]),
                                file=FILE, func=qn, serves=['C02'], params={'self': Obj('SmiV2Parser'), 'p': NoneT},
                                requires=['UNDECLARED_PRODUCTION_%s' % rule]))
            continue
        v1 = relaxed is not None
        cases = []
        for i, (syms, ex) in enumerate(zip(alts, exp)):
            if ex == PASS:
                if len(syms) != 1:
                    ex = 'BAD_PASS'
                else:
                    ex = 'p1'
            if ex.startswith('ENS:'):
                tree = ex[4:]
            else:
                tree = 'same(p[0], %s)' % ex if ex != 'None' else 'p[0] is None'
            ens = {'tree': tree, 'type': 'HAS_TYPE(p[0])'}
            cases.append(('%d:%s' % (i + 1, ' '.join(syms)),
                          {'setup': make_setup(rule, syms, ex, v1), 'ensures': ens}))
        serves = ['C02']
        if rule in ('objectIdentifier', 'subidentifiers', 'subidentifier', 'valueDeclaration', 'trapTypeClause',
                    'ObjectName', 'NotificationName'):
            serves.append('C01')
        if rule in ('range', 'ranges', 'value', 'enumItem', 'enumItems', 'enumNumber', 'enumSpec', 'NamedBit',
                    'NamedBits', 'DefValPart', 'Value', 'valueofSimpleSyntax', 'BitNames', 'BitsValue', 'SimpleSyntax',
                    'ApplicationSyntax', 'integerSubType', 'octetStringSubType', 'Syntax'):
            serves.append('C05')
        if rule in ('IndexType', 'IndexTypes', 'Index', 'Entry', 'MibIndex', 'IndexPart', 'Objects', 'Object',
                    'Notifications', 'Notification', 'VarTypes', 'VarType', 'NotificationObjectsPart',
                    'ObjectGroupObjectsPart', 'MandatoryGroups', 'MandatoryGroup', 'Compliances', 'Compliance',
                    'ComplianceGroup', 'ComplianceModule', 'ComplianceModules', 'conceptualTable', 'row', 'entryType',
                    'sequenceItem', 'sequenceItems', 'VarPart', 'NotificationsPart', 'MandatoryPart', 'CompliancePart'):
            serves.append('C06')
        if rule in ('Text', 'ExtUTCTime'):
            serves.append('C15')
        if rule in ('MaxAccessPart', 'trapTypeClause', 'VarPart'):
            serves.append('C16')
        serves.append('C17')
        cid = 'parser.' + qn.split('.')[-1] + ('' if relaxed is None else '@' + qn.split('.')[0])
        out.append(Contract(
            id=cid, file=FILE, func=qn, serves=serves,
            params={'self': Obj('SmiV2Parser'), 'p': NoneT},
            defs=dict(SPEC_HELPERS), raises={}, cases=cases,
            notes=['rule=' + rule]))
        out[-1].rule = rule
    return out


def _has_type(it, args, kwargs):
    rule = it.contract.notes[0].split('=', 1)[1]
    t = TYPES.get(rule)
    if t is None:
        raise pv.Unsupported('no value type declared for rule %s' % rule)
    return pv.mkbool(pred(t, pv.lift(args[0]), it.ctx))


def _append_group(it, args, kwargs):
    """Compliances value after one more Compliance item: GROUP names accumulate in order, OBJECT items
    (value None) are skipped; the value is None while no GROUP has been seen."""
    acc, item = args
    from pyvc import pybuiltins as B
    ta, ti = pv.lift(acc), pv.lift(item)
    prev = z3.If(PV.is_PNone(ta), pv.EMPTY_SEQ, PV.litems(PV.titems(ta)[1]))
    with_item = PV.PTuple(pv.seq_of([pv.lift('Compliances'), PV.PList(z3.Concat(prev, z3.Unit(ti)))]))
    return pv.lower(z3.If(PV.is_PNone(ti), ta, with_item))


def _groups(it, args, kwargs):
    """the groups of a MandatoryPart followed by those of a CompliancePart (either may be None)"""
    def groups_of(part):
        t = pv.lift(part)
        return z3.If(PV.is_PNone(t), pv.EMPTY_SEQ, PV.litems(PV.titems(t)[1]))
    return pv.VList(seq=z3.Concat(groups_of(args[0]), groups_of(args[1])))


from pyvc import pybuiltins as _B
_B.SPEC_FUNCS['HAS_TYPE'] = _has_type
_B.SPEC_FUNCS['APPEND_GROUP'] = _append_group
_B.SPEC_FUNCS['GROUPS'] = _groups

try:
    CONTRACTS = build_contracts()
except OSError:
    CONTRACTS = []


# ------------------------------------------------------------------ error callback and entry point (C11, C12)
from pyvc.models import components as _CM
from pyvc.interp import PyRaise as _PyRaise


def _yacc_parse(it, comp, args, kwargs, line):
    """PLY's parser.parse under contract: returns the start symbol's value, None after an unrecovered error, or
    lets a package error raised by a token rule / p_error through.  The lexer object is used (dirty) afterwards."""
    ctx = it.ctx
    ctx.ghost['lexer_dirty'] = True
    ctx.ghost['parse_calls'] = ctx.ghost.get('parse_calls', 0) + 1
    d = ctx.choose(3, 'yacc.parse@%s' % line)
    if d == 0:
        # the start symbol's value (value type of mibFile, see TYPES) or None after an unrecovered syntax error
        a = it.fresh_any('ast')
        ctx.assume(z3.Or(PV.is_PNone(a.t), pred(TYPES['mibFile'], a.t, ctx)))
        return a
    _CM.raise_pkg(it, 'PySmiLexerError' if d == 1 else 'PySmiParserError', line, lineno=it.fresh_int('lineno'))


def _lexer_reset(it, comp, args, kwargs, line):
    it.ctx.ghost['lexer_dirty'] = False
    it.ctx.ghost['resets'] = it.ctx.ghost.get('resets', 0) + 1
    return None


def _parse_setup(it, env):
    it.world.comp_models[('yacc', 'parse')] = _yacc_parse
    it.world.comp_models[('lexerwrap', 'reset')] = _lexer_reset
    it.ctx.ghost['lexer_dirty'] = False
    it.ctx.ghost['resets'] = 0
    it.ctx.ghost['parse_calls'] = 0


from pyvc import pybuiltins as _B3
_B3.SPEC_FUNCS['ghostv'] = lambda it, args, kwargs: it.ctx.ghost.get(args[0])

CONTRACTS += [
    Contract(id='parser.p_error', file=FILE, func='SmiV2Parser.p_error', serves=['C11'],
             params={'self': Obj('SmiV2Parser', lexer=Obj('SmiV2Lexer', lexer=Obj('Lexer', lineno=Int))), 'p': NoneT},
             cases=[('token', {'params': {'p': Obj('LexToken', type=Str, value=Any, lineno=Int)}}),
                    ('end-of-input', {'params': {'p': NoneT}})],
             ensures={'syntax_error_is_always_raised': 'raised and is_exc(exc, "PySmiParserError")',
                      'located_at_the_offending_token': 'implies(p is not None, raised and exc.lineno == p.lineno)',
                      'end_of_input_located_at_the_last_line': 'implies(p is None, raised and exc.lineno == self.lexer.lexer.lineno)'},
             raises={'PySmiParserError': True}),
    Contract(id='parser.parse', file=FILE, func='SmiV2Parser.parse', serves=['C11', 'C12', 'C02'],
             params={'self': Obj('SmiV2Parser', parser=Comp('yacc'), lexer=Comp('lexerwrap', lexer=Any)), 'data': Str,
                     'kwargs': Rec()},
             setup=_parse_setup, inline=['SmiV2Parser.reset'],
             ensures={
                 # C12: whatever happens, the next parse starts with a fresh lexer
                 'lexer_reset_on_every_exit': 'ghostv("lexer_dirty") == False',
                 'parsed_once': 'ghostv("parse_calls") == 1',
                 'modules_or_empty': 'implies(not raised, is_list(result) or is_tuple(result) or truthy(result) or result == [])',
             },
             raises={'PySmiLexerError': True}),
]


# ------------------------------------------------------------------ importPart: groups of one module are merged
# IMPSEL(imports, k, i): concatenation, over the first i `... FROM module` groups, of the symbol lists of the groups
# naming module k.  Uninterpreted, with its defining equations added at every mention (universally closed over the
# bound variables of the mention).
impsel = z3.Function('impsel', pv.PVSeq, z3.StringSort(), z3.IntSort(), pv.PVSeq)


def _bound_vars(t, acc=None, seen=None):
    acc = {} if acc is None else acc
    seen = set() if seen is None else seen
    if t.get_id() in seen:
        return acc
    seen.add(t.get_id())
    if z3.is_const(t) and t.decl().kind() == z3.Z3_OP_UNINTERPRETED and t.decl().name().startswith('q.'):
        acc[t.decl().name()] = t
    if z3.is_app(t):
        for c in t.children():
            _bound_vars(c, acc, seen)
    return acc


def _IMPSEL(it, args, kwargs):
    PV = pv.PV
    seq = it.seq_term(args[0])
    k = pv.as_term_str(args[1])
    i = pv.as_term_int(args[2])
    ctx = it.ctx

    def close(f, *terms):
        bv = {}
        for t in terms:
            _bound_vars(t, bv)
        return z3.ForAll(list(bv.values()), f) if bv else f
    ctx.assume(close(impsel(seq, k, z3.IntVal(0)) == pv.EMPTY_SEQ, k))
    j = pv.ssimp(i - 1)
    el = PV.titems(seq[j])
    syms = z3.If(PV.s(el[0]) == k, PV.litems(el[1]), pv.EMPTY_SEQ)
    ctx.assume(close(z3.Implies(z3.And(j >= 0, j < z3.Length(seq)),
                                impsel(seq, k, i) == z3.Concat(impsel(seq, k, j), syms)), k, i))
    return pv.VSeqIter(impsel(seq, k, i))


_B3.SPEC_FUNCS['IMPSEL'] = _IMPSEL


def _importpart_setup(it, env):
    imports = pv.VList(seq=it.ctx.fresh(pv.PVSeq, 'imports'))
    env.set('p', pv.VList([None, imports]))
    env.set('imports', imports)


CONTRACTS += [
    Contract(id='parser.p_importPart', file=FILE, func='SmiV2Parser.p_importPart', serves=['C02', 'C16', 'C17'],
             params={'self': Obj('SmiV2Parser'), 'p': NoneT}, setup=_importpart_setup,
             cases=[('1:imports', {
                        'requires': ['len(imports) >= 1',
                                     # value type of `imports` (contract of p_imports / p_import)
                                     'forall(imports, lambda x: is_tuple(x) and len(x) == 2 and is_str(x[0]) and is_list(x[1]))'],
                        'loops': {1: {'invariant': [
                            'is_dict(importDict)',
                            'forall(importDict, lambda k, v: is_list(v) and same(seq(v), IMPSEL(imports, k, _i)))',
                            'forall(lambda s_k: implies(s_k not in importDict, len(IMPSEL(imports, s_k, _i)) == 0))',
                            'forall(imports, lambda j, x: implies(j < _i, x[0] in importDict))']}},
                        'ensures': {
                            'every_group_of_a_module_is_kept_in_source_order':
                                'not raised and is_dict(p[0]) and forall(p[0], lambda k, v: is_list(v) and '
                                'same(seq(v), IMPSEL(imports, k, len(imports))))',
                            'every_module_named_is_a_key': 'is_dict(p[0]) and implies(is_dict(p[0]), forall(imports, lambda j, x: x[0] in p[0]))'}}),
                    ('2:empty', {'setup': lambda it, env: (env.set('p', pv.VList([None, None])), env.set('imports', pv.VList([]))),
                                 'ensures': {'no_imports_no_value': 'not raised and p[0] is None'}})],
             notes=['rule=importPart',
                    'inplace_extension_allowed: the symbol list extended in place belongs to an `import` value that '
                    'PLY discards with the reduction (the popped right-hand side is not referenced again)']),
]
