"""Contracts on the dialect factories (C17): parserFactory / lexerFactory build a class whose overriding members
are exactly those the relaxedGrammar table lists for the options asked for, and reject an unknown option with the
package error.  The nine options are enumerated: every subset is a case (the function is executed on a concrete
option dict, so each case is a loop-free, fork-free proof; 'quick' runs the singles, the shipped dialects, the empty
and the full set, 'thorough' all 512) plus an unknown option, asked for and not asked for."""
import itertools
from pyvc.contract import *
from pyvc import pv

OPTIONS = ['supportSmiV1Keywords', 'supportIndex', 'commaAtTheEndOfImport', 'commaAtTheEndOfSequence',
           'mixOfCommasAndSpaces', 'uppercaseIdentifier', 'lowcaseIdentifier', 'curlyBracesAroundEnterpriseInTrap',
           'noCells']
SHORT = ['v1kw', 'index', 'impcomma', 'seqcomma', 'commaspace', 'upper', 'lower', 'curly', 'nocells']


def opt_setup(opts):
    def setup(it, env):
        d = pv.VDict()
        for k, v in opts:
            d.keys.append(k)
            d.vals[k] = pv.SBool(v) if isinstance(v, bool) else v
        env.set('grammarOptions', d)
    return setup


def subsets(tier_all):
    out = []
    n = len(OPTIONS)
    for mask in range(1 << n):
        on = [OPTIONS[i] for i in range(n) if mask >> i & 1]
        quick = len(on) <= 1 or len(on) == n or on == OPTIONS[:2]
        out.append((on, quick))
    return out


def build(kind, file, func):
    cases = []
    for on, quick in subsets(True):
        name = '+'.join(SHORT[OPTIONS.index(o)] for o in on) or 'none'
        over = {'setup': opt_setup([(o, True) for o in on]), 'let': {'ON': repr(on), 'UNKNOWN': 'False'}}
        if not quick:
            over['tier'] = 'thorough'
        cases.append((name, over))
    # falsy known options are ignored
    cases.append(('off:all', {'setup': opt_setup([(o, False) for o in OPTIONS]), 'let': {'ON': '[]', 'UNKNOWN': 'False'}}))
    cases.append(('unknown:asked', {'setup': opt_setup([('noCells', True), ('noSuchRelaxation', True)]),
                                    'let': {'ON': '["noCells"]', 'UNKNOWN': 'True'}}))
    cases.append(('unknown:not_asked', {'setup': opt_setup([('noCells', True), ('noSuchRelaxation', False)]),
                                        'let': {'ON': '["noCells"]', 'UNKNOWN': 'False'}}))
    return Contract(
        id='%s.%s' % (kind, func), file=file, func=func, serves=['C17'],
        params={'grammarOptions': Any}, inline=['lexerFactory'],
        raises={'PySmiError': 'True'}, notes=['standalone'],
        ensures={
            'rejects_exactly_an_unknown_option_that_is_asked_for': 'iff(raised, UNKNOWN)',
            'rejects_with_the_package_error': 'implies(raised, is_exc(exc, "PySmiError"))',
            'members_are_those_of_the_options_asked_for': 'implies(not raised, FACTORY_MEMBERS(result, ON))',
        },
        cases=cases)


CONTRACTS = [
    build('lexer', 'pysmi/lexer/smi.py', 'lexerFactory'),
    build('parser', 'pysmi/parser/smi.py', 'parserFactory'),
]


# ------------------------------------------------------------------ spec: option -> documented relaxation class
# (parserFactory's doc string and the class names; the members are read from the class bodies of the tree under
# verification, not from the relaxedGrammar table the factory consults)
OPTION_CLASS = {
    'supportSmiV1Keywords': 'SupportSmiV1Keywords', 'supportIndex': 'SupportIndex',
    'commaAtTheEndOfImport': 'CommaInImport', 'commaAtTheEndOfSequence': 'CommaInSequence',
    'mixOfCommasAndSpaces': 'CommaAndSpaces', 'uppercaseIdentifier': 'UppercaseIdentifier',
    'lowcaseIdentifier': 'LowcaseIdentifier', 'curlyBracesAroundEnterpriseInTrap': 'CurlyBracesInEnterprises',
    'noCells': 'NoCells',
}
LEXER_MEMBERS = ('reserved', 'forbidden_words', 'tokens')


def _same_value(it, a, b):
    import z3
    if a is b:
        return True
    try:
        ta, tb = pv.lift(a), pv.lift(b)
    except Exception:
        return False
    s = z3.Solver()
    s.add(ta != tb)
    return s.check() == z3.unsat


def _members(it, cls, on, kind):
    """None if the class is what the options ask for, else a reason"""
    if not isinstance(cls, pv.VClass):
        return 'not a class'
    base = 'SmiV2Parser' if kind == 'parser' else 'SmiV2Lexer'
    if [getattr(b, 'name', None) for b in cls.bases] != [base]:
        return 'bases are not (%s,)' % base
    ns = cls.bases[0].module
    expected = {}
    owner = {}
    for o in on:
        cname = OPTION_CLASS.get(o)
        try:
            rc = ns.lookup(cname, it)
        except KeyError:
            if kind == 'lexer':
                continue        # a relaxation without lexical part has no class in the lexer module
            return 'no class %s' % cname
        for k, v in it.class_attrs(rc).items():
            if k.startswith('__'):
                continue
            if kind == 'parser' and not k.startswith('p_'):
                continue
            if k in expected:
                return 'member %s is defined by two relaxations (%s, %s): the dialect would depend on the ' \
                       'order of the options' % (k, owner[k], o)
            owner[k] = o
            if kind == 'lexer':
                expected[k] = ('call', v)
            else:
                expected[k] = ('is', v)
    own = dict(it.class_attrs(cls))
    if kind == 'parser':
        lx = own.pop('defaultLexer', None)
        r = _members(it, lx, on, 'lexer')
        if r is not None:
            return 'defaultLexer: ' + r
    if set(own) != set(expected):
        return 'own members %s, expected %s' % (sorted(own), sorted(expected))
    for k, (how, v) in expected.items():
        if how == 'is':
            got = own[k]
            if not (got is v or (isinstance(got, pv.VFunc) and isinstance(v, pv.VFunc) and got.node is v.node)):
                return 'member %s is not %s.%s' % (k, OPTION_CLASS[owner[k]], k)
        else:
            want = it.call_value(v, [], {})
            if not _same_value(it, own[k], want):
                return 'member %s is not the value of %s.%s()' % (k, OPTION_CLASS[owner[k]], k)
    return None


def _factory_members(it, args, kwargs):
    cls, on = args
    names = [x for x in (on.items if hasattr(on, 'items') and not callable(on.items) else on)]
    kind = 'parser' if it.contract is not None and it.contract.func == 'parserFactory' else 'lexer'
    r = _members(it, cls, names, kind)
    if r is not None:
        _factory_members.last = r
    return r is None


from pyvc import pybuiltins as _B
_B.SPEC_FUNCS['FACTORY_MEMBERS'] = _factory_members
