"""Contracts on pysmi/codegen/symtable.py (C01 registration and saturation, C03 order, C06 rows/columns)."""
import z3
from pyvc.contract import *
from pyvc import pv
from pyvc.pv import PV, SStr, SAny, VSeqIter, lift
from pyvc import pybuiltins as B

FILE = 'pysmi/codegen/symtable.py'

SELF = Obj('SymtableCodeGen', _rows=SetOf(), _cols=MapOf(), _exports=SetOf(), _postponedSyms=MapOf(),
           _parentOids=SetOf(), _importMap=MapOf(), _symsOrder=SeqOf(Str), _out=MapOf(), moduleName=Lst(Str),
           _moduleRevision=Any, genRules=Rec(text=Any), fakeidx=Int)

# a parent is available when it is registered, imported, a base type / table class, or a row type
AVAIL = ('lambda p: p in self._out or p in self._importMap or p in self.baseTypes or '
         'p in ("MibTable", "MibTableRow", "MibTableColumn") or p in self._rows')
# postponed entries are (parents, properties) pairs
PP_WF = ('forall(self._postponedSyms, lambda k, v: is_tuple(v) and len(v) == 2 and (is_tuple(v[0]) or is_list(v[0])) '
         'and not absent(v[1]) and k not in self._out)')
# saturation: no postponed symbol has all its parents available
SAT = ('forall(self._postponedSyms, lambda k, v: exists(seq(v[0]), lambda p: not AVAIL(p)))')

CONTRACTS = [
    Contract(
        id='symtable.allParentsExists', file=FILE, func='SymtableCodeGen.allParentsExists', serves=['C01'],
        params={'self': SELF, 'parents': Any}, defs={'AVAIL': AVAIL},
        requires=['is_tuple(parents) or is_list(parents)'],
        loops={1: {'invariant': ['parentsExists == True', 'forall(seq(parents), lambda j, p: implies(j < _i, AVAIL(p)))']}},
        returns=Bool,
        ensures={'true_iff_every_parent_available': 'not raised and iff(truthy(result), forall(seq(parents), lambda p: AVAIL(p)))',
                 'false_names_a_missing_parent': 'implies(not truthy(result), exists(seq(parents), lambda p: not AVAIL(p)))',
                 'observer': 'same(self._out, old(self._out)) and same(self._postponedSyms, old(self._postponedSyms))'},
        raises={}),
]

RP_DEFS = {'AVAIL': AVAIL}
DISTINCT = 'forall(seq(regedSyms), lambda j, x: forall(seq(regedSyms), lambda i, y: implies(i < j, x != y)))'
RP_ASSIGNS = ['self._out', 'self._symsOrder', 'self._postponedSyms']
RP_POST = {
    # C01: after registration no postponed symbol is ready (so the outcome does not depend on declaration order)
    'saturated': 'implies(not raised, %s)' % SAT,
    'registered_symbols_carry_their_properties': 'implies(not raised, forall(self._out, lambda k, v: '
        '(k in old(self._out) and same(v, old(self._out)[k])) or '
        '(k in old(self._postponedSyms) and same(v, old(self._postponedSyms)[k][1]))))',
    'nothing_registered_is_lost': 'implies(not raised, forall(old(self._out), lambda k, v: k in self._out and same(self._out[k], v)))',
    'postponed_symbols_stay_accounted': 'implies(not raised, forall(old(self._postponedSyms), lambda k, v: '
        '(k in self._postponedSyms and same(self._postponedSyms[k], v)) or k in self._out))',
    'no_new_postponed': 'implies(not raised, forall(self._postponedSyms, lambda k, v: k in old(self._postponedSyms) '
                        'and same(v, old(self._postponedSyms)[k])))',
    'still_well_formed': 'implies(not raised, %s)' % PP_WF,
}

CONTRACTS += [
    Contract(
        id='symtable.regPostponedSyms', file=FILE, func='SymtableCodeGen.regPostponedSyms', serves=['C01', 'C03'],
        params={'self': SELF}, defs=RP_DEFS, requires=[PP_WF], returns=NoneT, assigns=RP_ASSIGNS,
        loops={
            1: {'snap': {'P0': 'self._postponedSyms', 'O0': 'self._out'},
                'invariant': [
                    'same(self._postponedSyms, P0)',
                    'forall(P0, lambda k, v: k not in O0)',
                    'forall(O0, lambda k, v: k in self._out and same(self._out[k], v))',
                    'forall(self._out, lambda k, v: (k in O0 and same(v, O0[k])) or '
                    '(k in P0 and k in _done and same(v, P0[k][1]) and exists(seq(regedSyms), lambda x: x == k)))',
                    'forall(seq(regedSyms), lambda x: is_str(x) and x in P0 and x in self._out and x in _done)',
                    DISTINCT,
                    'implies(len(regedSyms) == 0, same(self._out, O0))',
                    'implies(len(regedSyms) == 0, forall(P0, lambda k, v: implies(k in _done, '
                    'exists(seq(v[0]), lambda p: not AVAIL(p)))))',
                ]},
            2: {'invariant': [
                    'forall(self._postponedSyms, lambda k, v: k in P0 and same(v, P0[k]) and '
                    'not exists(seq(regedSyms), lambda j, x: j < _i and x == k))',
                    'forall(P0, lambda k, v: (k in self._postponedSyms and same(self._postponedSyms[k], v)) or '
                    'exists(seq(regedSyms), lambda j, x: j < _i and x == k))',
                    'forall(seq(regedSyms), lambda x: is_str(x) and x in P0 and x in self._out)',
                    DISTINCT,
                    'implies(len(regedSyms) == 0, same(self._postponedSyms, P0))',
                    # nothing was registered in this pass: every postponed symbol still misses a parent
                    'implies(len(regedSyms) == 0, %s)' % SAT,
                ]},
        },
        ensures=RP_POST, raises={}),
]

CONTRACTS += [
    Contract(
        id='symtable.regSym', file=FILE, func='SymtableCodeGen.regSym', serves=['C01', 'C03'],
        params={'self': SELF, 'symbol': Str, 'symProps': MapOf(), 'parents': Any},
        defs=RP_DEFS, requires=[PP_WF, SAT, 'is_tuple(parents) or is_list(parents)'],
        returns=NoneT, assigns=RP_ASSIGNS,
        ensures={
            'duplicate_is_rejected': 'implies(symbol in old(self._out) or symbol in old(self._postponedSyms), raised)',
            'saturated': 'implies(not raised, %s)' % SAT,
            'still_well_formed': 'implies(not raised, %s)' % PP_WF,
            'registered_or_postponed': 'implies(not raised, (symbol in self._out and same(self._out[symbol], symProps)) or '
                                       '(symbol in self._postponedSyms and same(self._postponedSyms[symbol][1], symProps)))',
            'nothing_registered_is_lost': 'implies(not raised, forall(old(self._out), lambda k, v: k in self._out and same(self._out[k], v)))',
            'postponed_symbols_stay_accounted': 'implies(not raised, forall(old(self._postponedSyms), lambda k, v: '
                '(k in self._postponedSyms and same(self._postponedSyms[k], v)) or k in self._out))',
            'records_come_from_declarations': 'implies(not raised, forall(self._out, lambda k, v: '
                '(k in old(self._out) and same(v, old(self._out)[k])) or (k == symbol and same(v, symProps)) or '
                '(k in old(self._postponedSyms) and same(v, old(self._postponedSyms)[k][1]))))',
        },
        raises={'PySmiSemanticError': 'symbol in old(self._out) or symbol in old(self._postponedSyms)'}),
    Contract(
        id='symtable.genOid', file=FILE, func='SymtableCodeGen.genOid', serves=['C01'],
        params={'self': SELF, 'data': Lst(SeqOf()), 'classmode': Any},
        inline=['SymtableCodeGen.transOpers'],
        requires=['forall(data[0], lambda el: is_str(el) or is_num(el) or (is_tuple(el) and len(el) == 2 and is_num(el[1])))'],
        defs={'SYMT': 'lambda el: ite(is_str(el), (TRANS(el), self._importMap.get(TRANS(el), self.moduleName[0])), '
                      'ite(is_num(el), el, el[1]))'},
        loops={1: {'snap': {'PO0': 'self._parentOids'},
                   'invariant': ['is_tuple(out)', 'len(out) == _i',
                                 'forall(seq(out), lambda j, x: same(x, SYMT(data[0][j])))',
                                 'forall(seq(out), lambda x: is_num(x) or (is_tuple(x) and len(x) == 2))',
                                 'forall(PO0, lambda p: p in self._parentOids)',
                                 'forall(lambda j: implies(0 <= j and j < _i and is_str(data[0][j]), '
                                 'TRANS(data[0][j]) in self._parentOids))']}},
        returns=Any, assigns=['self._parentOids'],
        ensures={
            'same_length': 'implies(not raised, is_tuple(result) and len(result) == len(data[0]))',
            'parts_as_written': 'implies(not raised, forall(seq(result), lambda j, x: same(x, SYMT(data[0][j]))))',
            'parts_are_numbers_or_name_module_pairs': 'implies(not raised, forall(seq(result), lambda x: is_num(x) or '
                                                      '(is_tuple(x) and len(x) == 2)))',
            'named_parents_recorded': 'implies(not raised, forall(lambda j: implies(0 <= j and j < len(data[0]) and '
                                      'is_str(data[0][j]), TRANS(data[0][j]) in self._parentOids)))',
            'parent_set_only_grows': 'forall(old(self._parentOids), lambda p: p in self._parentOids)',
        },
        raises={}),
]


def _trans(it, args, kwargs):
    """TRANS(name): SymtableCodeGen.transOpers - Python keywords get the prefix pysmi_, hyphens become underscores"""
    import keyword
    v = args[0]
    if isinstance(v, str):
        return (('pysmi_' + v) if keyword.iskeyword(v) else v).replace('-', '_')
    t = pv.as_term_str(v)
    iskw = z3.Or(*[t == z3.StringVal(k) for k in B.PY312_KEYWORDS])
    pref = z3.If(iskw, z3.Concat(z3.StringVal('pysmi_'), t), t)
    B.replace_facts(it, pref, '-', '_')
    return SStr(B.py_replace(pref, z3.StringVal('-'), z3.StringVal('_')))


B.SPEC_FUNCS['TRANS'] = _trans


# =====================================================================================================
# rows and columns (C06): what the intermediate generator later classifies table / row / column by
# =====================================================================================================
CONTRACTS += [
    Contract(
        id='symtable.genSequence', file=FILE, func='SymtableCodeGen.genSequence', serves=['C06'],
        params={'self': SELF, 'data': Lst(SeqOf()), 'classmode': Any},
        requires=['forall(data[0], lambda c: is_tuple(c) and len(c) == 2 and is_str(c[0]))'],
        returns=Any, assigns=['self._cols'],
        ensures={
            'every_member_of_the_sequence_is_a_column': 'not raised and forall(data[0], lambda c: c[0] in self._cols)',
            'columns_only_grow': 'forall(old(self._cols), lambda k, v: k in self._cols)',
            'nothing_else_becomes_a_column': 'forall(self._cols, lambda k, v: k in old(self._cols) or '
                                             'exists(data[0], lambda c: c[0] == k))',
        }),
    Contract(
        id='symtable.genConceptualTable', file=FILE, func='SymtableCodeGen.genConceptualTable', serves=['C06'],
        params={'self': SELF, 'data': Lst(Tup(Tup(Str, Any), Any)), 'classmode': Any},
        inline=['SymtableCodeGen.transOpers'],
        returns=Any, assigns=['self._rows'],
        ensures={
            'row_type_recorded_under_its_translated_name':
                'not raised and implies(len(data[0][0][0]) > 0, TRANS(data[0][0][0]) in self._rows)',
            'rows_only_grow': 'forall(old(self._rows), lambda r: r in self._rows)',
            'nothing_else_becomes_a_row': 'forall(self._rows, lambda r: r in old(self._rows) or r == TRANS(data[0][0][0]))',
            'a_table': 'same(result, (("MibTable", ""), ""))',
        }),
    Contract(
        id='symtable.genRow', file=FILE, func='SymtableCodeGen.genRow', serves=['C06'],
        params={'self': SELF, 'data': Lst(Str), 'classmode': Any},
        inline=['SymtableCodeGen.transOpers', 'SymtableCodeGen.genSimpleSyntax'],
        returns=Any,
        ensures={
            'a_known_row_type_is_a_row': 'implies(TRANS(data[0]) in self._rows, not raised and same(result, (("MibTableRow", ""), "")))',
            'anything_else_is_an_ordinary_type': 'implies(TRANS(data[0]) not in self._rows and not raised, '
                                                 'is_tuple(result) and len(result) == 2 and is_tuple(result[0]) and result[1] == "")',
            'observer': 'same(self._rows, old(self._rows))',
        }),
]


# =====================================================================================================
# genCode: per-module driver of the symbol-table generator
# =====================================================================================================
ST_PER_MODULE = ['self._out', 'self._symsOrder', 'self._postponedSyms', 'self._parentOids', 'self._rows', 'self._cols',
                 'self._moduleRevision', 'self._exports']
from pyvc.apply import havoc_location as _havoc_location


def _st_handler_model(it, args, kwargs):
    """a clause handler as genCode sees it (handlers and regSym have their own contracts)"""
    from pyvc.interp import PyRaise
    ctx = it.ctx
    g = ctx.ghost
    selfv = args[0]
    exp = g['st_expected']
    ctx.oblige('symtable.genCode.dispatch.module_name_is_this_modules',
               lift(selfv.fields['moduleName'].items[0]) == lift(exp['name']), None, 'call-pre',
               info={'clause': 'self.moduleName[0] == ast[0] when a handler runs'})
    ctx.oblige('symtable.genCode.dispatch.class_mode_only_for_type_declarations',
               lift(args[2]) == lift(exp['classmode'](it)) if len(args) > 2 else False, None, 'call-pre',
               info={'clause': 'classmode == (clause tag == "typeDeclaration")'})
    if ctx.choose(2, 'handler-outcome') == 1:
        e = pv.VObj('PySmiError')
        e.fields['args'] = (it.fresh_str('msg'),)
        e.fields['msg'] = e.fields['args'][0]
        raise PyRaise(e, None)
    for p in ST_PER_MODULE:
        _havoc_location(it, g['st_env'], p)
    return None


def _st_gencode_setup(it, env):
    from pyvc.interp import UNBOUND
    ctx = it.ctx
    selfv = env.lookup('self')
    ht = pv.VObj('HandlerTable')
    last = {}

    def getitem(i, a, k):
        last['tag'] = a[0]
        return pv.VBuiltin('clause-handler', _st_handler_model)
    ht.attr_hook = lambda i_, o, attr: pv.VBuiltin('handlersTable.__getitem__', getitem) if attr == '__getitem__' else UNBOUND
    selfv.fields['handlersTable'] = ht
    env.set('kwargs', pv.VDict())
    ctx.ghost['st_expected'] = {
        'name': env.lookup('ast')[0],
        'classmode': lambda i: pv.veq(last['tag'], 'typeDeclaration')}
    ctx.ghost['st_env'] = env
    ctx.ghost['st_entry_out'] = selfv.fields['_out']


B.SPEC_FUNCS['MEMBERS'] = lambda it, args, kwargs: VSeqIter(pv.members_facts(
    it.ctx, args[0].to_arr() if hasattr(args[0], 'to_arr') else args[0].arr, isinstance(args[0], pv.VSet)))
B.SPEC_FUNCS['ST_ENTRY_OUT'] = lambda it, args, kwargs: args[0] is it.ctx.ghost['st_entry_out']

ST_RESET = ['forall(lambda s_k: s_k not in self._out)', 'len(self._symsOrder) == 0',
            'forall(lambda s_k: s_k not in self._postponedSyms)', 'forall(lambda s_k: s_k not in self._parentOids)',
            'forall(lambda s_k: s_k not in self._rows)', 'forall(lambda s_k: s_k not in self._cols)',
            'self._moduleRevision is None', 'not ST_ENTRY_OUT(self._out)',
            # C12: the numbering of fake index columns starts afresh for every module
            'self.fakeidx == 1000']

CONTRACTS += [
    Contract(id='symtable.prepData', file=FILE, func='SymtableCodeGen.prepData', serves=['C03'], trusted=True,
             params={'self': SELF, 'pdata': Any, 'classmode': Any}, returns=Any, pure=True,
             ensures={'a_list': 'implies(not raised, is_list(result))'}, raises={'PySmiError': True},
             notes=['assumed summary: prepData maps the clause arguments through the sub-handlers']),
    Contract(id='symtable.genCode', file=FILE, func='SymtableCodeGen.genCode', serves=['C03', 'C06', 'C12', 'C01', 'C08'],
             params={'self': SELF, 'ast': Tup(Str, Any, Any, Opt(SeqOf())), 'symbolTable': MapOf(), 'kwargs': NoneT},
             setup=_st_gencode_setup,
             requires=['implies(ast[3] is not None, forall(ast[3], lambda d: not truthy(d) or (is_tuple(d) and len(d) >= 1 and is_str(d[0]))))',
                       # value type of importPart (grammar contract): None or module name -> list of symbol names
                       'ast[2] is None or (is_dict(ast[2]) and "class" not in ast[2] and forall(ast[2], lambda k, v: is_list(v) and forall(seq(v), lambda s: is_str(s))))'],
             loops={
                 1: {'assigns': ST_PER_MODULE,
                     'invariant': ['implies(_i == 0, %s)' % r for r in ST_RESET] + ['self.moduleName[0] == ast[0]']},
                 # C12: the parents are checked in a specified (sorted) order, so that the error names the same missing
                 # parent whatever the hash seed
                 2: {'iter': '_par', 'invariant': ['forall(_par, lambda j, s: implies(j < _i, s in self._out or s in self._importMap))',
                                                   'forall(self._parentOids, lambda s: s in members(_par))']},
             },
             ensures={
                 'a_postponed_symbol_is_an_error': 'implies(truthy(self._postponedSyms), raised)',
                 'an_unknown_oid_parent_is_an_error':
                     'implies(not raised, forall(self._parentOids, lambda s: s in old_out_or_import(s)))'
                     if False else 'implies(not raised, forall(self._parentOids, lambda s: s in self._out or s in self._importMap))',
                 'declaration_order_is_published': 'implies(not raised, same(seq(result[1]["_symtable_order"]), seq(self._symsOrder)))',
                 # list(set) / list(dict): the members in iteration order (MEMBERS: exactly the members, order unspecified)
                 'rows_are_published': 'implies(not raised, same(seq(result[1]["_symtable_rows"]), MEMBERS(self._rows)))',
                 'columns_are_published': 'implies(not raised, same(seq(result[1]["_symtable_cols"]), MEMBERS(self._cols)))',
                 'table_is_this_modules_own_object': 'implies(not raised, result[1] is self._out and not ST_ENTRY_OUT(result[1]))',
                 'summary_is_this_modules': 'implies(not raised, result[0].name == ast[0] and same(result[0].revision, self._moduleRevision))',
             },
             # C08: the module summary reports exactly the module names genImports returned (which name every module of
             # the IMPORTS clause - contract symtable.genImports), in the same order
             at_return={1: {'imported_is_what_genImports_reported':
                            'same(seq(result[0].imported), seq(importedModules))'}},
             raises={'PySmiSemanticError': True, 'PySmiError': True}),
]
