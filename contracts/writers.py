"""Contracts on pysmi/writer/*.py (C13): atomicity of putData under single I/O faults."""
from pyvc.contract import *
from pyvc.models import osfs


def fs_setup(it, env):
    osfs.init_fs(it, env)


ONE = 'fs("fs_faults") <= 1'

FILE_ENSURES = {
    'dry_run_touches_nothing': 'implies(truthy(dryRun), not raised and same(fs("fs_files"), F0) '
                               'and same(fs("fs_dirs"), D0))',
    'success_means_stored': 'implies(not raised and not truthy(dryRun), same(file_at(target), full))',
    'old_or_new_never_partial': 'implies(%s, same(file_at(target), F0[target]) or same(file_at(target), full))' % ONE,
    'no_temp_left': 'implies(%s, forall(fs("fs_tmp"), lambda p: not isfile(p)))' % ONE,
    'nothing_else_touched': 'forall(lambda s_p: implies(s_p != target and s_p not in fs("fs_tmp"), '
                            'same(fs("fs_files")[s_p], F0[s_p])))',
}

CONTRACTS = [
    Contract(
        id='writer.FileWriter.putData', file='pysmi/writer/localfile.py', func='FileWriter.putData',
        serves=['C13', 'C20'],
        params={'self': Obj('FileWriter', _path=Str), 'mibname': Str, 'data': Str, 'dryRun': Any},
        setup=fs_setup, inline=['decode', 'encode'],
        let={'target': 'pjoin(self._path, mibname) + self.suffix', 'full': 'encoded(data)',
             'F0': 'fs("fs_files")', 'D0': 'fs("fs_dirs")'},
        ensures=FILE_ENSURES, replay='writer',
        raises={'PySmiWriterError': 'not truthy(dryRun)', 'OSError': 'fs("fs_faults") > 1'},
    ),
    Contract(
        id='writer.PyFileWriter.putData', file='pysmi/writer/pyfile.py', func='PyFileWriter.putData',
        serves=['C13', 'C20'],
        params={'self': Obj('PyFileWriter', _path=Str), 'mibname': Str, 'data': Str, 'dryRun': Any},
        setup=fs_setup, inline=['decode', 'encode'],
        let={'target': 'pjoin(self._path, mibname) + ".py"', 'full': 'encoded(data)',
             'F0': 'fs("fs_files")', 'D0': 'fs("fs_dirs")'},
        ensures={
            'dry_run_touches_nothing': FILE_ENSURES['dry_run_touches_nothing'],
            'success_means_stored': FILE_ENSURES['success_means_stored'],
            # a byte-compile failure may remove the stored module but never leaves a partial one
            'old_or_new_or_removed_never_partial': 'implies(%s, same(file_at(target), F0[target]) or '
                                                   'same(file_at(target), full) or (raised and absent(file_at(target))))' % ONE,
            'no_temp_left': FILE_ENSURES['no_temp_left'],
            'nothing_else_touched': FILE_ENSURES['nothing_else_touched'],
        },
        replay='writer',
        raises={'PySmiWriterError': 'not truthy(dryRun)', 'OSError': 'fs("fs_faults") > 1'},
    ),
    Contract(
        id='writer.CallbackWriter.putData', file='pysmi/writer/callback.py', func='CallbackWriter.putData',
        serves=['C13'],
        params={'self': Obj('CallbackWriter', _cbFun=Callback(), _cbCtx=Any), 'mibname': Str, 'data': Str,
                'dryRun': Any},
        ensures={
            'dry_run_calls_nothing': 'implies(truthy(dryRun), not raised and ghost("cb_calls") == 0)',
            'data_handed_over_verbatim': 'implies(not raised and not truthy(dryRun), ghost("cb_calls") == 1 and '
                                         'same(ghost("cb_last_args"), (mibname, data, self._cbCtx)))',
        },
        raises={'PySmiWriterError': 'not truthy(dryRun)'},
    ),
    Contract(
        id='writer.FileWriter.getData', file='pysmi/writer/localfile.py', func='FileWriter.getData',
        serves=['C18'],
        params={'self': Obj('FileWriter', _path=Str), 'mibname': Str},
        setup=fs_setup, inline=['decode'],
        let={'F0': 'fs("fs_files")'},
        ensures={'returns_text': 'implies(not raised, is_str(result))',
                 'reads_nothing_else': 'same(fs("fs_files"), F0)'},
        # observed, not part of any listed property: an index file that is not valid UTF-8 makes open().read()
        # raise UnicodeDecodeError, which the handler (OSError, IOError, UnicodeEncodeError) does not catch
        raises={'UnicodeDecodeError': True},
    ),
]
