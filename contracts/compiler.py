"""Contracts on pysmi/compiler.py.

``MibCompiler.compile`` is verified against the protocol contracts of its seven component kinds
(pyvc/models/components.py).  Twelve loops, each with an invariant; the maps are symbolic and of any
size, the component lists of any length, every component call picks its outcome adversarially.

H() is the history predicate of known finding D21/D13: some fetched file held a module whose name
differs from the requested name ("alias") or held more than one module ("multi").  The bookkeeping
invariants that classify a module as parsed *or* failed are proved for histories without H; the
exception-freedom and shape invariants are proved for all histories.
"""
from pyvc.contract import *
from pyvc.models import components as CM


def compile_setup(it, env):
    CM.init_ghost(it, env, env.lookup('options'))
    it.ctx.ghost['check_parsed_text'] = True
    it.ctx.ghost['mibnames_seq'] = env.lookup('mibnames').seq
    it.ctx.ghost['sources_seq'] = env.lookup('self').fields['_sources'].seq     # the sources in the order added


SELF = Obj('MibCompiler', _parser=Comp('parser'), _codegen=Comp('codegen'), _symbolgen=Comp('symbolgen'),
           _writer=Comp('writer'), _sources=SeqOf(Comp('reader')), _searchers=SeqOf(Comp('searcher')),
           _borrowers=SeqOf(Comp('borrower')))

DEFS = {
    'H': 'lambda: ghost("h_alias") or ghost("h_multi")',
    'SIX': 'lambda s: s == "compiled" or s == "untouched" or s == "failed" or s == "unprocessed" '
           'or s == "missing" or s == "borrowed"',
    'WS': 'lambda v: is_obj(v, "MibStatus") and SIX(strval(v)) and implies(strval(v) == "failed", has(v, "error"))',
    'WFI': 'lambda f: is_obj(f) and has(f, "name") and has(f, "mtime") and has(f, "path") and has(f, "file")',
    'WP': 'lambda k, v: is_tuple(v) and len(v) == 3 and WFI(v[0]) and is_obj(v[1]) '
          'and has(v[1], "name") and has(v[1], "imported") and v[1].name == k and modname(v[2]) == k',
    'WMI': 'lambda m: is_obj(m) and has(m, "oid") and has(m, "oids") and has(m, "identity") and has(m, "revision") '
           'and has(m, "enterprise") and has(m, "compliance")',
    'WB': 'lambda v: is_tuple(v) and len(v) == 3 and WFI(v[0]) and WMI(v[1])',
    'FAILST': 'lambda v: strval(v) == "failed" or strval(v) == "missing"',
    'ST': 'lambda v, s: strval(v) == s',
    'W': 'lambda: truthy(options.get("writeMibs", True))',
    # the module k was obtained by looking up an explicitly requested name
    'REQ': 'lambda k: k in ghost("req_ok")',
    'ND': 'lambda: truthy(options.get("noDeps"))',
}

# ---------------------------------------------------------------- discovery (loops 1-3)
DISC = [
    'forall(parsedMibs, lambda k, v: WP(k, v))',
    'forall(processed, lambda k, v: WS(v))',
    'forall(canonicalMibNames, lambda k, v: is_list(v))',
    'H() or forall(failedMibs, lambda k, v: k in processed and FAILST(processed[k]))',
    'H() or forall(processed, lambda k, v: FAILST(v) and k in failedMibs)',
    'H() or forall(parsedMibs, lambda k, v: k not in failedMibs)',
    # C08 fetch_once: a name is looked up at most once, and a look-up asks every source at most once
    'forall(lambda s_k: implies(s_k not in fetchedMibs, count(ghost("fetch_cnt"), s_k) == 0))',
    'forall(lambda s_k: count(ghost("fetch_cnt"), s_k) <= len(self._sources))',
    # C08 source_order: "missing" is reported only after every source was asked
    'forall(processed, lambda k, v: implies(ST(v, "missing"), count(ghost("fetch_cnt"), k) == len(self._sources)))',
    # C08 terminates: everything on the work list is a name of the (finite) universe
    'forall(mibsToParse, lambda n: n in ghost("U"))',
    # C10 noDeps: the modules recorded as "canonical" are exactly those obtained for an explicitly requested name
    'forall(ghost("req_ok"), lambda k, v: k in canonicalMibNames)',
    'forall(canonicalMibNames, lambda k, v: REQ(k))',
    # discovery only ever reports failed / missing
    'forall(processed, lambda k, v: FAILST(v))',
]
# C08 closure / C07 accounted (all histories): every import of a parsed module and every requested name is parsed,
# failed, looked up already or still queued; a name that was looked up is parsed, failed, or the look-up produced
# modules of other names (ghost "resolved": the files found for it held at least one module)
CLOSURE1 = [
    'forall(parsedMibs, lambda k, v: forall(imports_of(v[2]), lambda n: '
    'n in parsedMibs or n in failedMibs or n in fetchedMibs or n in members(mibsToParse)))',
    'forall(mibnames, lambda n: n in parsedMibs or n in failedMibs or n in fetchedMibs or n in members(mibsToParse))',
    'forall(fetchedMibs, lambda k: k in parsedMibs or k in failedMibs or k in ghost("resolved"))',
    'forall(failedMibs, lambda k, v: k in processed)',
    # without aliases a resolved name is the name of a parsed module
    'H() or forall(ghost("resolved"), lambda k, v: k in parsedMibs)',
]
# ... and while one name is being looked up (it has left the queue and may be in neither map yet)
CLOSURE2 = CLOSURE1[:2] + [
    'forall(fetchedMibs, lambda k: k in parsedMibs or k in failedMibs or k in ghost("resolved") or k == mibname)',
    'forall(failedMibs, lambda k, v: k in processed)',
    'H() or forall(ghost("resolved"), lambda k, v: k in parsedMibs)',
    'mibname in fetchedMibs',
]
# C08 terminates: lexicographic descent (|U - fetched|, len(work list)); the cardinality step is the set lemma
# extras.c08_termination_lemma (cvc5, finite sets)
STEP1 = {
    'C08_work_list_shrinks_or_a_new_name_of_the_universe_is_looked_up':
        '(same(fetchedMibs, prev(fetchedMibs)) and len(mibsToParse) == prev(len(mibsToParse)) - 1) or '
        '(prev(mibsToParse[0]) not in prev(fetchedMibs) and prev(mibsToParse[0]) in ghost("U") and '
        ' forall(lambda s_k: (s_k in fetchedMibs) == (s_k in prev(fetchedMibs) or s_k == prev(mibsToParse[0]))))',
}
# accounting after discovery (P0: the parsed modules at the end of discovery)
ACC = [
    'forall(P0, lambda k, v: forall(imports_of(v[2]), lambda n: n in P0 or n in processed or n in ghost("resolved")))',
    'forall(mibnames, lambda n: n in P0 or n in processed or n in ghost("resolved"))',
    'H() or forall(ghost("resolved"), lambda k, v: k in P0)',
    'forall(lambda s_k: count(ghost("fetch_cnt"), s_k) <= len(self._sources))',
]

# ---------------------------------------------------------------- "needs generating" (loops 4-5)
L4 = [
    'forall(P0, lambda k, v: WP(k, v))',
    'forall(P0, lambda k, v: implies(k not in _done, k in parsedMibs and same(parsedMibs[k], v)))',
    'forall(parsedMibs, lambda k, v: k in P0 and same(v, P0[k]))',
    'forall(processed, lambda k, v: WS(v))',
    'H() or forall(failedMibs, lambda k, v: k in processed and FAILST(processed[k]))',
    'H() or forall(processed, lambda k, v: (FAILST(v) and k in failedMibs) or '
    '(ST(v, "untouched") and k not in parsedMibs and k not in failedMibs))',
    'H() or forall(parsedMibs, lambda k, v: k not in failedMibs and k not in processed)',
    # C10: a module stays in the work set only after every searcher was asked (once, in list order) and none
    # answered "fresh"
    'H() or forall(parsedMibs, lambda k, v: implies(k in _done, count(ghost("asked_cnt"), k) == len(self._searchers) '
    'and k not in ghost("fresh_seen")))',
]
L4_HEAD = ['H() or forall(P0, lambda k, v: implies(k not in _done, count(ghost("asked_cnt"), k) == 0 '
           'and k not in ghost("fresh_seen")))']
L5_HEAD = ['H() or forall(P0, lambda k, v: implies(k not in _done and k != mibname, count(ghost("asked_cnt"), k) == 0 '
           'and k not in ghost("fresh_seen")))',
           'H() or (count(ghost("asked_cnt"), mibname) == _i and mibname not in ghost("fresh_seen"))',
           'mibname not in _done', 'mibname in P0']

# ---------------------------------------------------------------- code generation (loop 6)
L6 = [
    'forall(P1, lambda k, v: WP(k, v))',
    'forall(P1, lambda k, v: implies(k not in _done, k in parsedMibs and same(parsedMibs[k], v)))',
    'forall(parsedMibs, lambda k, v: k in P1 and same(v, P1[k]) and k not in _done)',
    'forall(processed, lambda k, v: WS(v))',
    'forall(builtMibs, lambda k, v: WB(v) and k in P1 and k in ghost("gen_by_name") '
    'and same(v[2], ghost("gen_by_name")[k]))',
    'forall(ghost("gen_by_name"), lambda k, v: k in P1 and k in _done and k in builtMibs)',
    'H() or forall(failedMibs, lambda k, v: k in processed and FAILST(processed[k]))',
    'H() or forall(processed, lambda k, v: (FAILST(v) and k in failedMibs) or '
    '(ST(v, "untouched") and k not in P1 and k not in failedMibs))',
    'H() or forall(builtMibs, lambda k, v: k not in failedMibs and k not in processed)',
    'H() or forall(parsedMibs, lambda k, v: k not in failedMibs and k not in processed)',
]

# ---------------------------------------------------------------- borrowing (loops 7-8)
L7 = [
    'forall(F0, lambda k, v: implies(k not in _done, k in failedMibs and same(failedMibs[k], v)))',
    'forall(failedMibs, lambda k, v: k in F0 and same(v, F0[k]))',
    'forall(borrowedMibs, lambda k, v: WB(v) and k in F0 and k not in failedMibs '
    'and k in ghost("borrow_by_name") and same(v[2], ghost("borrow_by_name")[k]))',
    'forall(ghost("borrow_by_name"), lambda k, v: k in F0)',
    'forall(F0, lambda k, v: k in failedMibs or k in borrowedMibs)',
    'H() or forall(F0, lambda k, v: k not in ghost("gen_by_name"))',
    # C19 only_for_failed: a borrower is consulted only for names that have no generated code
    'H() or forall(ghost("borrow_n"), lambda k, v: k in F0 and k not in ghost("gen_by_name"))',
]

# ---------------------------------------------------------------- "needs borrowing" (loops 9-10)
L9 = [
    'forall(B0, lambda k, v: implies(k not in _done, k in borrowedMibs and same(borrowedMibs[k], v)))',
    'forall(borrowedMibs, lambda k, v: k in B0 and same(v, B0[k]) and k not in _done)',
    'forall(processed, lambda k, v: WS(v))',
    'forall(builtMibs, lambda k, v: WB(v))',
    'forall(builtMibs, lambda k, v: (k in U1 and same(v, U1[k])) or (k in B0 and same(v, B0[k])))',
    'H() or forall(U1, lambda k, v: k in builtMibs and same(builtMibs[k], v))',
    'H() or forall(B0, lambda k, v: k not in U1)',
    'H() or forall(ghost("gen_by_name"), lambda k, v: k in U1 and same(U1[k][2], v))',
    'forall(B0, lambda k, v: k in ghost("borrow_by_name") and same(v[2], ghost("borrow_by_name")[k]))',
    'H() or forall(failedMibs, lambda k, v: k in processed and FAILST(processed[k]))',
    'H() or forall(builtMibs, lambda k, v: k not in failedMibs and '
    '((k in U1 and k not in processed) or (k in B0 and k not in U1 and k in processed and ST(processed[k], "borrowed"))))',
    'H() or forall(processed, lambda k, v: (FAILST(v) and (k in failedMibs or k in borrowedMibs)) or '
    '(ST(v, "untouched") and k not in builtMibs and k not in failedMibs and k not in borrowedMibs) or '
    '(ST(v, "borrowed") and k in builtMibs and k in B0 and k not in U1 and k not in borrowedMibs))',
]

# ---------------------------------------------------------------- failure gate (loop 11)
L11 = [
    'forall(processed, lambda k, v: WS(v))',
    'forall(builtMibs, lambda k, v: implies(k in _done, k in processed and ST(processed[k], "unprocessed")))',
]

# ---------------------------------------------------------------- store (loop 12)
L12 = [
    'forall(U2, lambda k, v: WB(v))',
    'forall(U2, lambda k, v: implies(k not in _done, k in builtMibs and same(builtMibs[k], v)))',
    'forall(builtMibs, lambda k, v: k in U2 and same(v, U2[k]) and k not in _done)',
    'forall(processed, lambda k, v: WS(v))',
    # C09: the store loop runs only without outstanding failures, or when errors are ignored
    'truthy(options.get("ignoreErrors")) or not truthy(FL2)',
    # C07 write_once / C09 every built module is handed over exactly once when writing is on
    'forall(lambda s_k: count(ghost("puts_n"), s_k) == ite(s_k in U2 and s_k in _done and W(), 1, 0))',
    # C07 text_exact: what reached the writer is the payload recorded for that module
    'forall(ghost("put_ok"), lambda k, v: k in U2 and k in _done and same(v, U2[k][2]))',
    'forall(ghost("put_failed"), lambda k, v: k in U2 and k in _done)',
    # C07 status_iff_written (for visited modules)
    'H() or forall(U2, lambda k, v: implies(k in _done, k in processed and '
    '((k in ghost("put_ok") and (ST(processed[k], "compiled") or ST(processed[k], "borrowed"))) or '
    ' (k in ghost("put_failed") and ST(processed[k], "failed") and k not in ghost("put_ok")) or '
    ' (not W() and k not in ghost("put_ok") and (ST(processed[k], "compiled") or ST(processed[k], "borrowed"))))))',
    'H() or forall(U2, lambda k, v: implies(k not in _done, (k not in processed and k not in PR2) or '
    '(k in processed and k in PR2 and same(processed[k], PR2[k]) and ST(processed[k], "borrowed"))))',
    'H() or forall(processed, lambda k, v: k in U2 or same(v, PR2[k]))',
    'forall(PR2, lambda k, v: k in processed)',
    # lemmas about the state at loop entry (constant during the loop) used by the final clauses
    'H() or forall(PR2, lambda k, v: implies(ST(v, "untouched"), k not in U2 and k not in ghost("gen_by_name")))',
    'H() or forall(U2, lambda k, v: implies(k in PR2 and ST(PR2[k], "borrowed"), '
    'k in ghost("borrow_by_name") and same(v[2], ghost("borrow_by_name")[k])))',
    'H() or forall(U2, lambda k, v: implies(k in _done and k in processed and ST(processed[k], "borrowed"), '
    'k in PR2 and ST(PR2[k], "borrowed")))',
    'H() or forall(ghost("gen_by_name"), lambda k, v: k in U2 and same(U2[k][2], v))',
]

# C10 / C19 noDeps: canonicalMibNames holds exactly the modules obtained for an explicitly requested name (established
# by discovery, constant afterwards)
CANON = ['forall(ghost("req_ok"), lambda k, v: k in canonicalMibNames)', 'forall(canonicalMibNames, lambda k, v: REQ(k))']
# "needs generating": a requested module is reported untouched only because a searcher said it is fresh - never because
# of noDeps; and with noDeps only requested modules stay in the work set
ND4 = CANON + [
    'forall(P0, lambda k, v: implies(REQ(k) and k in processed and ST(processed[k], "untouched"), k in ghost("fresh_seen")))',
    'forall(parsedMibs, lambda k, v: implies(k in _done and ND(), REQ(k)))',
]
ND5 = CANON + [
    'forall(P0, lambda k, v: implies(REQ(k) and k in processed and ST(processed[k], "untouched"), k in ghost("fresh_seen")))',
    'forall(parsedMibs, lambda k, v: implies(k in _done and ND(), REQ(k)))',
]
# code generation: with noDeps code is generated for requested modules only
ND6 = ['implies(ND(), forall(P1, lambda k, v: REQ(k)))']
# borrowing: an explicitly requested name that stays failed was offered to every borrower, noDeps or not
ND7 = [
    'forall(F0, lambda k, v: implies(k not in _done, count(ghost("borrow_n"), k) == 0))',
    'forall(F0, lambda k, v: implies(k in _done and k in failedMibs and k in mibnames, '
    'count(ghost("borrow_n"), k) == len(self._borrowers)))',
]
ND8 = [
    'forall(F0, lambda k, v: implies(k not in _done and k != mibname, count(ghost("borrow_n"), k) == 0))',
    'forall(F0, lambda k, v: implies(k in _done and k in failedMibs and k in mibnames, '
    'count(ghost("borrow_n"), k) == len(self._borrowers)))',
    'mibname not in _done', 'count(ghost("borrow_n"), mibname) == _i',
]

LOOPS = {
    1: {'invariant': DISC + CLOSURE1, 'step': STEP1},
    2: {'invariant': DISC + CLOSURE2 + [
        'H() or mibname not in parsedMibs',
        # C08 source_order: sources are asked one after the other, each once; the next one is asked only when
        # the previous one answered not-found or its text failed
        'count(ghost("fetch_cnt"), mibname) == _i',
        'implies(_i > 0, mibname in failedMibs or same(ghost("fetch_last")[mibname], "notfound"))']},
    3: {'index': '_j', 'invariant': DISC + CLOSURE2 + [
        'ghost("h_trees") == _j', 'same(ghost("h_cur_req"), mibname)', 'H() or _j <= 1',
        'H() or implies(_j == 0, mibname not in parsedMibs)',
        'H() or implies(_j > 0, mibname in parsedMibs)',
        'implies(_j > 0, mibname in ghost("resolved"))',
        'count(ghost("fetch_cnt"), mibname) <= len(self._sources)']},
    4: {'invariant': L4 + L4_HEAD + ACC + ND4 + ['forall(P0, lambda k, v: k in processed or k in parsedMibs)'],
        'snap': {'P0': 'parsedMibs'}},
    5: {'invariant': L4 + L5_HEAD + ACC + ND5 + ['mibname in parsedMibs',
                                           'forall(P0, lambda k, v: k in processed or k in parsedMibs)']},
    6: {'invariant': L6 + ACC + ND6 + ['forall(P0, lambda k, v: k in processed or k in parsedMibs or k in builtMibs)'],
        'snap': {'P1': 'parsedMibs'}},
    7: {'invariant': L7 + ACC + ND7 + ['forall(P0, lambda k, v: k in processed or k in builtMibs)'],
        'snap': {'F0': 'failedMibs'}},
    8: {'invariant': L7 + ACC + ND8 + ['mibname in failedMibs', 'forall(P0, lambda k, v: k in processed or k in builtMibs)']},
    9: {'invariant': L9 + ACC + ['forall(P0, lambda k, v: k in processed or k in builtMibs)'],
        'snap': {'B0': 'borrowedMibs', 'U1': 'builtMibs'}},
    10: {'invariant': L9 + ACC + ['mibname in borrowedMibs', 'forall(P0, lambda k, v: k in processed or k in builtMibs)']},
    11: {'invariant': L11 + ACC + ['forall(P0, lambda k, v: k in processed or k in builtMibs)']},
    12: {'invariant': L12 + ACC + ['forall(P0, lambda k, v: k in processed or k in builtMibs)'],
         'snap': {'U2': 'builtMibs', 'FL2': 'failedMibs', 'PR2': 'processed'}},
}

CONTRACTS = [
    Contract(
        id='compiler._get_system_info', file='pysmi/compiler.py', func='MibCompiler._get_system_info',
        serves=['C07'], params={'self': Obj('MibCompiler')},
        returns=Tup(Any, Any),
        ensures={'shape': 'implies(not raised, is_tuple(result[0]) and len(result[0]) >= 3 '
                          'and is_tuple(result[1]) and len(result[1]) >= 1)'},
        raises={},
    ),
    Contract(
        id='compiler.compile', file='pysmi/compiler.py', func='MibCompiler.compile',
        serves=['C07', 'C08', 'C09', 'C10', 'C19'],
        params={'self': SELF, 'mibnames': TupOf(Str), 'options': MapOf()},
        setup=compile_setup, defs=DEFS, heavy=True,
        inline=['MibStatus.setOptions'],
        # U: the finite universe of module names the sources can mention (assumption of the termination argument;
        # the symbol-table model promises that every imported name lies in it)
        ghost={'U': SetOf()},
        requires=['forall(mibnames, lambda n: n in ghost("U"))'],
        loops=LOOPS,
        at_return={
            1: {   # the failure gate
                'C09_nothing_written': 'ghost("puts_total") == 0',
                'C09_built_unprocessed': 'forall(builtMibs, lambda k, v: k in processed and ST(processed[k], "unprocessed"))',
                'C09_gate_condition': 'truthy(failedMibs) and not truthy(options.get("ignoreErrors"))',
                # every parsed module, and everything it imports, has a status - or (a file named unlike its module)
                # the look-up of the imported name produced modules that have one
                'C08_closure': 'forall(P0, lambda k, v: k in processed and '
                               'forall(imports_of(v[2]), lambda n: n in processed or n in ghost("resolved")))',
                'C08_closure_by_name': 'H() or forall(P0, lambda k, v: forall(imports_of(v[2]), lambda n: n in processed))',
                'C07_accounted': 'forall(mibnames, lambda n: n in processed or n in ghost("resolved"))',
                'C07_accounted_by_name': 'H() or forall(mibnames, lambda n: n in processed)',
                'C08_fetch_once': 'forall(lambda s_k: count(ghost("fetch_cnt"), s_k) <= len(self._sources))',
            },
            2: {
                'C07_write_once': 'forall(lambda s_k: count(ghost("puts_n"), s_k) <= 1)',
                'C09_all_built_written': 'implies(W(), forall(U2, lambda k, v: count(ghost("puts_n"), k) == 1))',
                'C07_text_exact': 'forall(ghost("put_ok"), lambda k, v: k in U2 and same(v, U2[k][2]))',
                'C07_status_iff_written': 'H() or implies(W(), forall(processed, lambda k, v: '
                                          'iff(k in ghost("put_ok"), ST(v, "compiled") or ST(v, "borrowed"))))',
                'C07_payload_is_generated_or_borrowed': 'forall(ghost("put_ok"), lambda k, v: '
                    '(k in ghost("gen_by_name") and same(v, ghost("gen_by_name")[k])) or '
                    '(k in ghost("borrow_by_name") and same(v, ghost("borrow_by_name")[k])))',
                'C10_untouched_not_generated_not_written': 'H() or forall(processed, lambda k, v: implies('
                    'ST(v, "untouched"), k not in ghost("gen_by_name") and count(ghost("puts_n"), k) == 0))',
                'C19_borrowed_verbatim': 'H() or forall(processed, lambda k, v: implies(ST(v, "borrowed") and '
                    'k in ghost("put_ok"), same(ghost("put_ok")[k], ghost("borrow_by_name")[k])))',
                'C19_compiled_never_replaced': 'H() or forall(ghost("gen_by_name"), lambda k, v: implies('
                    'k in ghost("put_ok"), same(ghost("put_ok")[k], v)))',
                # every parsed module, and everything it imports, has a status - or (a file named unlike its module)
                # the look-up of the imported name produced modules that have one
                'C08_closure': 'forall(P0, lambda k, v: k in processed and '
                               'forall(imports_of(v[2]), lambda n: n in processed or n in ghost("resolved")))',
                'C08_closure_by_name': 'H() or forall(P0, lambda k, v: forall(imports_of(v[2]), lambda n: n in processed))',
                'C07_accounted': 'forall(mibnames, lambda n: n in processed or n in ghost("resolved"))',
                'C07_accounted_by_name': 'H() or forall(mibnames, lambda n: n in processed)',
                'C08_fetch_once': 'forall(lambda s_k: count(ghost("fetch_cnt"), s_k) <= len(self._sources))',
                'C10_nodeps_generates_only_requested_modules': 'implies(ND(), forall(ghost("gen_by_name"), lambda k, v: REQ(k)))',
                'C09_ignore_errors_keeps_bad_status': 'H() or forall(PR2, lambda k, v: implies(FAILST(v), '
                    'k in processed and FAILST(processed[k])))',
            },
        },
        ensures={
            'C07_no_escape': 'not raised',
            'C07_status_values': 'implies(not raised, forall(result, lambda k, v: WS(v)))',
        },
        raises={},
    ),
]


# ------------------------------------------------------------------------------------------- buildIndex (C18)
# The index is rebuilt on top of what the writer holds: genIndex gets the compile results and the stored index text,
# its result is written under the index name, honouring dryRun; a package error is swallowed only with ignoreErrors.
def _index_setup(it, env):
    from pyvc import pv
    from pyvc.models import components as _CM
    from pyvc.interp import PyRaise
    ctx = it.ctx
    _CM.init_ghost(it, env, env.lookup('options'))
    ctx.ghost['opt_dryRun'] = None          # (the forwarding clause is stated below, over the recorded call)
    g = ctx.ghost
    g['ix_calls'] = 0

    def writer_get(it_, comp, args, kwargs, line):
        g['ix_old_name'] = args[0]
        old = it_.fresh_any('stored_index')
        g['ix_old'] = old
        return old

    def gen_index(it_, comp, args, kwargs, line):
        g['ix_calls'] += 1
        g['ix_processed'] = args[0]
        g['ix_kw_old'] = kwargs.get('old_index_data')
        if it_.ctx.choose(2, 'genIndex@%s' % line) == 1:
            _CM.raise_pkg(it_, 'PySmiError', line)
        t = it_.fresh_any('index_text')
        g['ix_text'] = t
        return t

    def writer_put(it_, comp, args, kwargs, line):
        g['ix_put'] = (args[0], args[1], kwargs.get('dryRun'))
        g['ix_puts'] = g.get('ix_puts', 0) + 1
        if it_.ctx.choose(2, 'putData@%s' % line) == 1:
            _CM.raise_pkg(it_, 'PySmiError', line)
        return None
    it.world.comp_models[('writer', 'getData')] = writer_get
    it.world.comp_models[('writer', 'putData')] = writer_put
    it.world.comp_models[('codegen', 'genIndex')] = gen_index
    it.world.models['time.asctime'] = lambda i, a, k: i.fresh_str('asctime')


from pyvc import pybuiltins as _BC
_BC.SPEC_FUNCS.setdefault('ghostv', lambda it, args, kwargs: it.ctx.ghost.get(args[0]))
_BC.SPEC_FUNCS['IX_PUT'] = lambda it, args, kwargs: it.ctx.ghost.get('ix_put', (None, None, None))[args[0]]

CONTRACTS += [
    Contract(
        id='compiler.buildIndex', file='pysmi/compiler.py', func='MibCompiler.buildIndex', serves=['C18'],
        params={'self': Obj('MibCompiler', _codegen=Comp('codegen'), _writer=Comp('writer'), indexFile=Str),
                'processedMibs': MapOf(), 'options': MapOf()},
        setup=_index_setup,
        ensures={
            'built_on_top_of_the_stored_index':
                'ghostv("ix_calls") == 1 and same(ghostv("ix_old_name"), self.indexFile) and '
                'ghostv("ix_kw_old") is ghostv("ix_old") and ghostv("ix_processed") is processedMibs',
            'result_is_stored_under_the_index_name':
                'implies(not raised and ghostv("ix_puts") == 1, same(IX_PUT(0), self.indexFile) and IX_PUT(1) is ghostv("ix_text") '
                'and same(IX_PUT(2), options.get("dryRun")))',
            'a_built_index_is_handed_to_the_writer_once': 'implies(not raised and not truthy(options.get("ignoreErrors")), ghostv("ix_puts") == 1)',
            'errors_are_swallowed_only_on_request': 'implies(raised, not truthy(options.get("ignoreErrors")) and is_exc(exc, "PySmiError"))',
        },
        raises={'PySmiError': 'not truthy(options.get("ignoreErrors"))'}),
]
