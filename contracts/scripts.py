"""Contracts on the command-line tools (C20).

scripts/mibdump.py is a script: the verified text is the REGION of module-level statements from the `try:` that
configures and runs the compiler to the end of the file (pyvc/verify.py _region), with the names the region reads as
parameters.  MibCompiler.compile / buildIndex appear through their verified contracts (contracts/compiler.py): compile
never raises and returns a map whose values are MibStatus objects with one of the six status strings; buildIndex returns
or raises PySmiError.  sys.exit is modelled as raising SystemExit with the code; sys.stderr.write as a no-op."""
from pyvc.contract import *
from pyvc import pv
from pyvc.pv import PV, VObj, VDict, SStr, lift
import z3

FILE = 'scripts/mibdump.py'


def _setup(it, env):
    from pyvc.interp import PyRaise
    from pyvc.models import components as CM
    ctx = it.ctx
    g = ctx.ghost
    g['md_calls'] = []

    def sys_exit(i, a, k):
        e = VObj('SystemExit')
        e.fields['code'] = a[0] if a else 0
        raise PyRaise(e, None)
    it.world.models['sys.exit'] = sys_exit
    it.world.models['sys.stderr.write'] = lambda i, a, k: None

    def readers(i, a, k):
        if i.ctx.choose(2, 'getReadersFromUrls') == 1:
            CM.raise_pkg(i, 'PySmiError', None)
        return pv.VList([])
    it.world.models['pysmi.reader.getReadersFromUrls'] = readers

    def compile_(i, comp, a, k, line):
        # the verified contract of MibCompiler.compile: no exception, every value one of the six statuses
        g['md_compile_args'] = (tuple(a), dict(k))
        m = VDict(arr=i.ctx.fresh(pv.PVArr, 'processed'))
        q = z3.Const('q.pk.4', z3.StringSort())
        v = m.arr[q]
        six = z3.Or(*[PV.sval(v) == PV.PStr(z3.StringVal(s)) for s in
                      ('compiled', 'untouched', 'failed', 'unprocessed', 'missing', 'borrowed')])
        i.ctx.assume(z3.ForAll([q], z3.Implies(v != pv.PAbsent, z3.And(PV.is_PObj(v), PV.cls(v) == z3.StringVal('MibStatus'), six))))
        g['md_processed'] = m
        return m

    def build_index(i, comp, a, k, line):
        g['md_index_args'] = (tuple(a), dict(k))
        if i.ctx.choose(2, 'buildIndex') == 1:
            CM.raise_pkg(i, 'PySmiError', line)
        return None
    C = it.world.comp_models
    C[('mibcompiler', 'addSources')] = lambda i, comp, a, k, line: comp
    C[('mibcompiler', 'addSearchers')] = lambda i, comp, a, k, line: comp
    C[('mibcompiler', 'addBorrowers')] = lambda i, comp, a, k, line: comp
    C[('mibcompiler', 'compile')] = compile_
    C[('mibcompiler', 'buildIndex')] = build_index


from pyvc import pybuiltins as _B
_B.SPEC_FUNCS['MD_PROCESSED'] = lambda it, args, kwargs: it.ctx.ghost.get('md_processed')
_B.SPEC_FUNCS['MD_OPT'] = lambda it, args, kwargs: it.ctx.ghost['md_compile_args'][1].get(args[0])
_B.SPEC_FUNCS['MD_COMPILED'] = lambda it, args, kwargs: 'md_compile_args' in it.ctx.ghost

BAD = 'exists(MD_PROCESSED(), lambda k, v: strval(v) == "missing" or strval(v) == "failed")'

CONTRACTS = [
    # assumed summary of the URL dispatch (decided by the bounded stand-in of C14): a list of readers or a package error
    Contract(id='reader.getReadersFromUrls', file='pysmi/reader/url.py', func='getReadersFromUrls', serves=['C20'], trusted=True,
             params={'sourceUrls': Any, 'options': Any}, returns=Lst(Any),
             ensures={}, raises={'PySmiError': True},
             notes=['assumed summary: getReadersFromUrls returns a list of readers or raises PySmiError (bounded stand-in: C14)']),
    Contract(
        id='mibdump.run_and_report', file=FILE, func='@region try:\n    mibCompiler.addSources(', serves=['C20'],
        params={'mibCompiler': Comp('mibcompiler'), 'mibSources': Lst(Str), 'doFuzzyMatchingFlag': Bool,
                'searchers': Lst(), 'borrowers': Lst(), 'inputMibs': Lst(Str, Str), 'nodepsFlag': Bool, 'rebuildFlag': Bool,
                'dryrunFlag': Bool, 'dstTemplate': Any, 'genMibTextsFlag': Bool, 'keepTextsLayout': Bool,
                'writeMibsFlag': Bool, 'ignoreErrorsFlag': Bool, 'buildIndexFlag': Bool, 'verboseFlag': Const(False)},
        setup=_setup, replay='none',
        ensures={
            'the_script_always_ends_through_sys_exit': 'raised and is_exc(exc, "SystemExit")',
            'exit_status_0_iff_nothing_is_missing_or_failed':
                'implies(MD_COMPILED() and exc.code != 70, iff(exc.code == 0, not %s))' % BAD,
            'a_missing_or_failed_module_gives_exit_status_79':
                'implies(MD_COMPILED() and exc.code != 70 and %s, exc.code == 79)' % BAD,
            'a_library_error_gives_exit_status_70': 'exc.code == 0 or exc.code == 79 or exc.code == 70',
            'the_options_reach_compile':
                'implies(MD_COMPILED(), same(MD_OPT("noDeps"), nodepsFlag) and same(MD_OPT("rebuild"), rebuildFlag) and '
                'same(MD_OPT("dryRun"), dryrunFlag) and same(MD_OPT("genTexts"), genMibTextsFlag) and '
                'same(MD_OPT("writeMibs"), writeMibsFlag) and same(MD_OPT("ignoreErrors"), ignoreErrorsFlag) and '
                'same(MD_OPT("dstTemplate"), dstTemplate))',
        },
        raises={'SystemExit': True},
        notes=['str_subclass_equality', 'the report lines (stderr text) are built by filter comprehensions over the same status comparisons as the '
               'exit status; their text is not decided']),
]
