"""Contracts on pysmi/codegen/intermediate.py (C01, C03, C05, C06, C15, C16)."""
import z3
from pyvc.contract import *
from pyvc import pv
from pyvc.pv import PV, SStr, SInt, SAny, VSeqIter, lift, lower
from pyvc import pybuiltins as B

FILE = 'pysmi/codegen/intermediate.py'

SELF = Obj('IntermediateCodeGen', _out=MapOf(), _importMap=MapOf(), _seenSyms=SetOf(), _oids=SetOf(), _rows=SetOf(),
           _cols=MapOf(), _complianceOids=SeqOf(), _enterpriseOid=Any, _moduleIdentityOid=Any, _moduleRevision=Any,
           moduleName=Lst(Str), genRules=Rec(text=Any), symbolTable=MapOf(), fakeidx=Int, textFilter=TextFilter())

# ------------------------------------------------------------------ spec functions for OID resolution
oid_res = z3.Function('oid_res', pv.PVArr, PV, z3.IntSort(), pv.PVSeq)    # Resolve of the first i parts
oid_part = z3.Function('oid_part', pv.PVArr, PV, pv.PVSeq)                  # numeric arcs one part stands for


def _arr(st):
    return st.to_arr() if hasattr(st, 'to_arr') else PV.dvals(lift(st))


def oid_of(starr, x):
    """the stored OID of the symbol a (name, module) part refers to"""
    items = PV.titems(x)
    mod_tab = starr[pv.kenc_t(items[1])]
    sym = PV.dvals(mod_tab)[pv.kenc_t(items[0])]
    return PV.dvals(sym)[z3.StringVal('oid')]


def part_term(starr, x):
    """PART: the numeric arcs one OID part stands for: a number is itself, ('iso', _) is 1, (name, module) is the
    resolved OID of that symbol in that module's table"""
    o = oid_of(starr, x)
    return z3.If(PV.is_PInt(x), z3.Unit(x),
                 z3.If(PV.titems(x)[0] == lift('iso'), z3.Unit(lift(1)),
                       oid_res(starr, o, z3.Length(PV.titems(o)))))


def sp_RES(it, args, kwargs):
    """RES(st, oid, i): resolved arcs of the first i parts.  Every mention adds the defining equations of RES at
    that point (RES(o, 0) = [] and RES(o, i) = RES(o, i-1) ++ PART(o[i-1])): instances of the definition of the
    specification function, not assumptions about the code."""
    st, oid, i = args
    arr, o, it_ = _arr(st), lift(oid), pv.as_term_int(i)
    ctx = it.ctx
    ctx.assume(oid_res(arr, o, z3.IntVal(0)) == pv.EMPTY_SEQ)
    j = z3.simplify(it_ - 1)
    n = z3.Length(PV.titems(o))
    ctx.assume(z3.Implies(z3.And(j >= 0, j < n),
                          oid_res(arr, o, it_) == z3.Concat(oid_res(arr, o, j), part_term(arr, PV.titems(o)[j]))))
    return VSeqIter(oid_res(arr, o, it_))


def sp_PART(it, args, kwargs):
    st, x = args
    return VSeqIter(part_term(_arr(st), lift(x)))


B.SPEC_FUNCS['RES'] = sp_RES
B.SPEC_FUNCS['PART'] = sp_PART

CONTRACTS = [
    Contract(
        id='intermediate.genNumericOid', file=FILE, func='IntermediateCodeGen.genNumericOid', serves=['C01'],
        params={'self': SELF, 'oid': Any},
        requires=['is_tuple(oid)',
                  # parts are numbers or (name, module) pairs (postcondition of genOid of both generators)
                  'forall(seq(oid), lambda x: is_num(x) or (is_tuple(x) and len(x) == 2))',
                  # symbol tables map module -> symbol -> properties (dicts); an OID-bearing symbol holds a tuple
                  'forall(self.symbolTable, lambda m, t: is_dict(t))',
                  'forall(lambda s_m, s_n: implies(s_m in self.symbolTable and s_n in self.symbolTable[s_m], '
                  'is_dict(self.symbolTable[s_m][s_n]) and implies("oid" in self.symbolTable[s_m][s_n], '
                  'is_tuple(self.symbolTable[s_m][s_n]["oid"]) and forall(seq(self.symbolTable[s_m][s_n]["oid"]), '
                  'lambda x: is_num(x) or (is_tuple(x) and len(x) == 2)))))'],
        loops={1: {'invariant': ['is_tuple(numericOid)',
                                 'same(seq(numericOid), RES(self.symbolTable, oid, _i))']}},
        returns=Any,
        ensures={
            'resolves': 'implies(not raised, is_tuple(result) and same(seq(result), RES(self.symbolTable, oid, len(oid))))',
            'table_unchanged': 'same(self.symbolTable, old(self.symbolTable))',
        },
        raises={'PySmiSemanticError': True},
    ),
]
