"""Contracts on pysmi/codegen/intermediate.py (C01, C03, C05, C06, C15, C16)."""
import z3
from pyvc.contract import *
from pyvc import pv
from pyvc.pv import PV, SStr, SInt, SAny, VSeqIter, lift, lower
from pyvc import pybuiltins as B

FILE = 'pysmi/codegen/intermediate.py'

SELF = Obj('IntermediateCodeGen', _out=MapOf(), _importMap=MapOf(), _seenSyms=SetOf(), _oids=SetOf(), _rows=SetOf(),
           _cols=MapOf(), _complianceOids=SeqOf(), _enterpriseOid=Any, _moduleIdentityOid=Any, _moduleRevision=Any,
           moduleName=Lst(Str), genRules=Rec(text=Any), symbolTable=MapOf(), fakeidx=Int, textFilter=TextFilter())

# ------------------------------------------------------------------ spec functions for OID resolution
oid_res = z3.Function('oid_res', pv.PVArr, PV, z3.IntSort(), pv.PVSeq)    # Resolve of the first i parts
oid_part = z3.Function('oid_part', pv.PVArr, PV, pv.PVSeq)                  # numeric arcs one part stands for


def _arr(st):
    return st.to_arr() if hasattr(st, 'to_arr') else PV.dvals(lift(st))


def oid_of(starr, x):
    """the stored OID of the symbol a (name, module) part refers to"""
    items = PV.titems(x)
    mod_tab = starr[pv.kenc_t(items[1])]
    sym = PV.dvals(mod_tab)[pv.kenc_t(items[0])]
    return PV.dvals(sym)[z3.StringVal('oid')]


def part_term(starr, x):
    """PART: the numeric arcs one OID part stands for: a number is itself, ('iso', _) is 1, (name, module) is the
    resolved OID of that symbol in that module's table"""
    o = oid_of(starr, x)
    return z3.If(PV.is_PInt(x), z3.Unit(x),
                 z3.If(PV.titems(x)[0] == lift('iso'), z3.Unit(lift(1)),
                       oid_res(starr, o, z3.Length(PV.titems(o)))))


def sp_RES(it, args, kwargs):
    """RES(st, oid, i): resolved arcs of the first i parts.  Every mention adds the defining equations of RES at
    that point (RES(o, 0) = [] and RES(o, i) = RES(o, i-1) ++ PART(o[i-1])): instances of the definition of the
    specification function, not assumptions about the code."""
    st, oid, i = args
    arr, o, it_ = _arr(st), lift(oid), pv.as_term_int(i)
    ctx = it.ctx
    ctx.assume(oid_res(arr, o, z3.IntVal(0)) == pv.EMPTY_SEQ)
    j = z3.simplify(it_ - 1)
    n = z3.Length(PV.titems(o))
    ctx.assume(z3.Implies(z3.And(j >= 0, j < n),
                          oid_res(arr, o, it_) == z3.Concat(oid_res(arr, o, j), part_term(arr, PV.titems(o)[j]))))
    return VSeqIter(oid_res(arr, o, it_))


def sp_PART(it, args, kwargs):
    st, x = args
    return VSeqIter(part_term(_arr(st), lift(x)))


B.SPEC_FUNCS['RES'] = sp_RES
B.SPEC_FUNCS['PART'] = sp_PART

CONTRACTS = [
    Contract(
        id='intermediate.genNumericOid', file=FILE, func='IntermediateCodeGen.genNumericOid', serves=['C01'],
        params={'self': SELF, 'oid': Any},
        requires=['is_tuple(oid)',
                  # parts are numbers or (name, module) pairs (postcondition of genOid of both generators)
                  'forall(seq(oid), lambda x: is_num(x) or (is_tuple(x) and len(x) == 2))',
                  # symbol tables map module -> symbol -> properties (dicts); an OID-bearing symbol holds a tuple
                  'forall(self.symbolTable, lambda m, t: is_dict(t))',
                  'forall(lambda s_m, s_n: implies(s_m in self.symbolTable and s_n in self.symbolTable[s_m], '
                  'is_dict(self.symbolTable[s_m][s_n]) and implies("oid" in self.symbolTable[s_m][s_n], '
                  'is_tuple(self.symbolTable[s_m][s_n]["oid"]) and forall(seq(self.symbolTable[s_m][s_n]["oid"]), '
                  'lambda x: is_num(x) or (is_tuple(x) and len(x) == 2)))))'],
        loops={1: {'invariant': ['is_tuple(numericOid)',
                                 'same(seq(numericOid), RES(self.symbolTable, oid, _i))']}},
        returns=Any,
        ensures={
            'resolves': 'implies(not raised, is_tuple(result) and same(seq(result), RES(self.symbolTable, oid, len(oid))))',
            'table_unchanged': 'same(self.symbolTable, old(self.symbolTable))',
        },
        raises={'PySmiSemanticError': True},
    ),
]


# =====================================================================================================
# registration, OID strings, clause handlers
# =====================================================================================================
REG_ASSIGNS = ['self._out', 'self._seenSyms', 'self._oids', 'self._enterpriseOid', 'self._moduleIdentityOid',
               'self._complianceOids']
ENT = "'.'.join(outDict['oid'].split('.')[:7])"
IS_ENT = "('oid' in outDict and outDict['oid'].startswith('1.3.6.1.4.1.'))"

CONTRACTS += [
    Contract(
        id='intermediate.regSym', file=FILE, func='IntermediateCodeGen.regSym', serves=['C03', 'C01', 'C18'],
        params={'self': SELF, 'symbol': Str, 'outDict': MapOf(), 'parentOid': Any, 'moduleIdentity': Bool,
                'moduleCompliance': Bool},
        inline=['IntermediateCodeGen.addToExports'],
        requires=['implies("oid" in outDict, is_str(outDict["oid"]))'],
        returns=NoneT, assigns=REG_ASSIGNS,
        ensures={
            'registered_under_its_name': 'implies(not raised, same(self._out[symbol], outDict) and symbol in self._seenSyms)',
            'other_records_untouched': 'forall(lambda s_k: implies(s_k != symbol, same(self._out[s_k], old(self._out)[s_k])))',
            'oid_collected': 'implies(not raised and "oid" in outDict, outDict["oid"] in self._oids)',
            'oids_only_grow': 'forall(old(self._oids), lambda o: o in self._oids)',
            'oids_nothing_else': 'implies(not raised, forall(self._oids, lambda o: o in old(self._oids) or '
                                 '("oid" in outDict and o == outDict["oid"])))',
            'enterprise_is_first_private_oid': 'implies(not raised, same(self._enterpriseOid, '
                                               'ite(not truthy(old(self._enterpriseOid)) and %s, %s, old(self._enterpriseOid))))' % (IS_ENT, ENT),
            'identity_set_once': 'implies(not raised, same(self._moduleIdentityOid, '
                                 'ite(moduleIdentity and "oid" in outDict, outDict["oid"], old(self._moduleIdentityOid))))',
            'compliance_appended_in_order': 'implies(not raised, same(seq(self._complianceOids), '
                                            'ite(moduleCompliance and "oid" in outDict, '
                                            'concat(seq(old(self._complianceOids)), (outDict["oid"],)), seq(old(self._complianceOids)))))',
            'duplicate_is_rejected': 'implies(symbol in old(self._seenSyms) and symbol not in old(self._importMap), '
                                     'raised and same(self._out, old(self._out)))',
            'second_identity_is_rejected': 'implies(moduleIdentity and "oid" in outDict and truthy(old(self._moduleIdentityOid)), raised)',
        },
        raises={'PySmiSemanticError': '(symbol in old(self._seenSyms) and symbol not in old(self._importMap)) or '
                                      '(moduleIdentity and "oid" in outDict and truthy(old(self._moduleIdentityOid)))'},
    ),
]

ST_WF = ['forall(self.symbolTable, lambda m, t: is_dict(t))',
         'forall(lambda s_m, s_n: implies(s_m in self.symbolTable and s_n in self.symbolTable[s_m], '
         'is_dict(self.symbolTable[s_m][s_n]) and implies("oid" in self.symbolTable[s_m][s_n], '
         'is_tuple(self.symbolTable[s_m][s_n]["oid"]) and forall(seq(self.symbolTable[s_m][s_n]["oid"]), '
         'lambda x: is_num(x) or (is_tuple(x) and len(x) == 2)))))']

# symbolic OID part for one sub-identifier as written: name -> (translated name, defining module),
# number -> itself, name(number) -> number
SYM = ('lambda el: ite(is_str(el), (py_replace(el, "-", "_"), self._importMap.get(py_replace(el, "-", "_"), '
       'self.moduleName[0])), ite(is_num(el), el, el[1]))')

CONTRACTS += [
    Contract(
        id='intermediate.genOid', file=FILE, func='IntermediateCodeGen.genOid', serves=['C01'],
        params={'self': SELF, 'data': Lst(SeqOf())},
        inline=['IntermediateCodeGen.transOpers'],
        defs={'SYM': SYM},
        requires=['forall(data[0], lambda el: is_str(el) or is_num(el) or (is_tuple(el) and len(el) == 2 and is_num(el[1])))']
                 + ST_WF,
        loops={1: {'invariant': ['is_tuple(out)', 'is_str(parent)', 'len(out) == _i',
                                 'forall(seq(out), lambda x: is_num(x) or (is_tuple(x) and len(x) == 2))',
                                 'forall(seq(out), lambda j, x: same(x, SYM(data[0][j])))']}},
        returns=Tup(Str, Str),
        at_return={1: {
            # `out` is, element by element, the symbolic form of the sub-identifiers as written ...
            'oid_parts_as_written': 'len(out) == len(data[0]) and forall(seq(out), lambda j, x: same(x, SYM(data[0][j])))',
            # ... and the dotted string is the decimal rendering of Resolve applied to it
            'oid_string': 'same(result[0], ".".join([str(x) for x in RES(self.symbolTable, out, len(out))]))',
        }},
        ensures={
            'parent_is_text': 'implies(not raised, is_str(result[1]))',
            'table_unchanged': 'same(self.symbolTable, old(self.symbolTable))',
        },
        raises={'PySmiSemanticError': True},
    ),
]

# =====================================================================================================
# clause handlers: one record per declaration (C03), text members only on request (C15), object lists in order
# with module attribution (C06), OID string taken from the resolved OID (C01)
# =====================================================================================================
TEXT = 'truthy(self.genRules["text"])'
HY = lambda e: 'py_replace(%s, "-", "_")' % e


def opt(member, src, cond='True'):
    return {
        member + '_present_iff_declared': 'implies(not raised, iff("%s" in result, (%s) and truthy(%s)))' % (member, cond, src),
        member + '_as_declared': 'implies(not raised and "%s" in result, same(result["%s"], %s))' % (member, member, src),
    }


def common(name_src, cls, members, oid_src=None):
    e = {
        'name_is_translated': 'implies(not raised, same(result["name"], %s))' % HY(name_src),
        'class': 'implies(not raised, result["class"] == "%s")' % cls,
        'no_other_member': 'implies(not raised, forall(result, lambda k: k in %r))' % (tuple(['name', 'class', 'oid'] + members),),
        'registered_under_translated_name': 'implies(not raised, same(self._out[%s], result))' % HY(name_src),
        'other_records_untouched': 'implies(not raised, forall(lambda s_k: implies(s_k != %s, '
                                   'same(self._out[s_k], old(self._out)[s_k]))))' % HY(name_src),
    }
    if oid_src:
        e['oid_is_resolved_oid'] = 'implies(not raised, same(result["oid"], %s))' % oid_src
    return e


def objects_clause(member, src):
    return {
        member + '_present_iff_nonempty': 'implies(not raised, iff("%s" in result, len(%s) > 0))' % (member, src),
        member + '_same_length': 'implies(not raised and "%s" in result, len(result["%s"]) == len(%s))' % (member, member, src),
        member + '_same_order_and_attribution': 'implies(not raised and "%s" in result, forall(seq(result["%s"]), '
            'lambda j, o: same(o["object"], %s) and same(o["module"], self._importMap.get(%s[j], self.moduleName[0]))))'
            % (member, member, HY(src + '[j]'), src),
    }


def merged(*ds):
    out = {}
    for d in ds:
        out.update(d)
    return out


OIDT = Tup(Str, Any)
H_INLINE = ['IntermediateCodeGen.transOpers', 'IntermediateCodeGen.genLabel']


def handler(fn, data_shape, ensures, serves, requires=()):
    return Contract(id='intermediate.' + fn, file=FILE, func='IntermediateCodeGen.' + fn, serves=serves,
                    params={'self': SELF, 'data': data_shape}, inline=H_INLINE, requires=list(requires),
                    returns=MapOf(), assigns=REG_ASSIGNS, ensures=ensures, raises={'PySmiSemanticError': True})


CONTRACTS += [
    handler('genObjectIdentity', Lst(Str, Any, Any, Any, OIDT),
            merged(common('data[0]', 'objectidentity', ['status', 'description', 'reference'], 'data[4][0]'),
                   opt('status', 'data[1]'), opt('description', 'data[2]', TEXT), opt('reference', 'data[3]', TEXT)),
            ['C03', 'C15', 'C01']),
    handler('genValueDeclaration', Lst(Str, OIDT),
            common('data[0]', 'objectidentity', [], 'data[1][0]'), ['C03', 'C01']),
    handler('genAgentCapabilities', Lst(Str, Any, Any, Any, Any, OIDT),
            merged(common('data[0]', 'agentcapabilities', ['productrelease', 'status', 'description', 'reference'], 'data[5][0]'),
                   opt('productrelease', 'data[1]'), opt('status', 'data[2]'), opt('description', 'data[3]', TEXT),
                   opt('reference', 'data[4]', TEXT)),
            ['C03', 'C15', 'C01']),
    handler('genModuleCompliance', Lst(Str, Any, Any, Any, Any, OIDT),
            merged(common('data[0]', 'modulecompliance', ['modulecompliance', 'status', 'description', 'reference'], 'data[5][0]'),
                   opt('status', 'data[1]'), opt('description', 'data[2]', TEXT), opt('reference', 'data[3]', TEXT),
                   opt('modulecompliance', 'data[4]')),
            ['C03', 'C15', 'C06', 'C01']),
    handler('genNotificationGroup', Lst(Str, SeqOf(Str), Any, Any, Any, OIDT),
            merged(common('data[0]', 'notificationgroup', ['objects', 'status', 'description', 'reference'], 'data[5][0]'),
                   objects_clause('objects', 'data[1]'), opt('status', 'data[2]'), opt('description', 'data[3]', TEXT),
                   opt('reference', 'data[4]', TEXT)),
            ['C03', 'C15', 'C06', 'C01']),
    handler('genNotificationType', Lst(Str, SeqOf(Str), Any, Any, Any, OIDT),
            merged(common('data[0]', 'notificationtype', ['objects', 'status', 'description', 'reference'], 'data[5][0]'),
                   objects_clause('objects', 'data[1]'), opt('status', 'data[2]'), opt('description', 'data[3]', TEXT),
                   opt('reference', 'data[4]', TEXT)),
            ['C03', 'C15', 'C06', 'C01']),
    handler('genObjectGroup', Lst(Str, SeqOf(Str), Any, Any, Any, OIDT),
            merged(common('data[0]', 'objectgroup', ['objects', 'status', 'description', 'reference'], 'data[5][0]'),
                   objects_clause('objects', 'data[1]'), opt('status', 'data[2]'), opt('description', 'data[3]', TEXT),
                   opt('reference', 'data[4]', TEXT)),
            ['C03', 'C15', 'C06', 'C01']),
    # TRAP-TYPE becomes a notification with OID <enterprise>.0.<trap number>; objects = VARIABLES in order
    handler('genTrapType', Lst(Str, OIDT, SeqOf(Str), Any, Any, Int),
            merged(common('data[0]', 'notificationtype', ['objects', 'description', 'reference'],
                          'data[1][0] + ".0." + str(data[5])'),
                   objects_clause('objects', 'data[2]'), opt('description', 'data[3]', TEXT),
                   opt('reference', 'data[4]', TEXT)),
            ['C03', 'C15', 'C06', 'C01', 'C16']),
]

# =====================================================================================================
# sub-part handlers
# =====================================================================================================
def sub(fn, data_shape, ensures, serves, requires=(), raises=None, loops=None, inline=(), returns=Any, defs=None,
        assigns=(), let=None):
    ensures = {k: (v if 'raised' in v else 'implies(not raised, %s)' % v) for k, v in ensures.items()}
    return Contract(id='intermediate.' + fn, file=FILE, func='IntermediateCodeGen.' + fn, serves=serves,
                    params={'self': SELF, 'data': data_shape}, requires=list(requires), ensures=ensures,
                    raises=raises or {}, loops=loops or {}, inline=list(inline) + ['IntermediateCodeGen.transOpers'],
                    returns=returns, defs=defs or {}, assigns=list(assigns), let=let or {})


def passthrough(fn, serves):
    return sub(fn, Lst(Any), {'handed_on_unchanged': 'not raised and same(result, data[0])'}, serves)


def filtered(fn, kind, serves):
    return sub(fn, Lst(Str), {'text_through_filter_once': 'not raised and same(result, self.textFilter("%s", data[0]))' % kind},
               serves, returns=Str)


TIMEFMT = ('lambda s: ite(valid_time(ite(len(s) == 11, "19" + s, s), "%Y%m%d%H%MZ"), '
           'strftime("%Y-%m-%d %H:%M", strptime(ite(len(s) == 11, "19" + s, s), "%Y%m%d%H%MZ")), '
           'strftime("%Y-%m-%d %H:%M", strptime("197001010000Z", "%Y%m%d%H%MZ")))')

CONTRACTS += [
    passthrough('genBitNames', ['C05']), passthrough('genStatus', ['C03']), passthrough('genMaxAccess', ['C03', 'C16']),
    passthrough('genLastUpdated', ['C03', 'C15']),
    filtered('genDescription', 'description', ['C15']), filtered('genReference', 'reference', ['C15']),
    filtered('genUnits', 'units', ['C15']), filtered('genOrganization', 'organization', ['C15']),
    filtered('genContactInfo', 'contact-info', ['C15']),
    # C15: every emitted text goes through the text filter; DISPLAY-HINT and PRODUCT-RELEASE bypass it (D26)
    filtered('genDisplayHint', 'display-hint', ['C15']), filtered('genProductRelease', 'product-release', ['C15']),
    sub('genObjects', Lst(SeqOf(Str)),
        {'same_length': 'not raised and len(result) == len(data[0])',
         'same_order_translated': 'forall(seq(result), lambda j, o: same(o, py_replace(data[0][j], "-", "_")))'},
        ['C06'], returns=SeqOf(Str)),
    sub('genTime', Lst(Str),
        {'one_per_input': 'not raised and len(result) == 1',
         'normalised_or_epoch': 'same(result[0], TIMEFMT(data[0]))'},
        ['C03'], defs={'TIMEFMT': TIMEFMT}, returns=Lst(Str)),
    sub('genRevisions', Lst(SeqOf()),
        {'one_per_revision_in_order': 'implies(not raised, len(result) == len(data[0]))',
         'date_and_filtered_text': 'implies(not raised, forall(seq(result), lambda j, r: is_dict(r) and '
                                   'same(r["revision"], TIMEFMT(data[0][j][0])) and '
                                   'same(r["description"], self.textFilter("description", data[0][j][1][1]))))'},
        ['C03', 'C15'], defs={'TIMEFMT': TIMEFMT},
        requires=['forall(data[0], lambda x: is_tuple(x) and len(x) == 2 and is_str(x[0]) and is_tuple(x[1]) '
                  'and len(x[1]) == 2 and is_str(x[1][1]))'],
        loops={1: {'invariant': ['len(revisions) == _i',
                                 'forall(seq(revisions), lambda j, r: is_dict(r) and same(r["revision"], TIMEFMT(data[0][j][0])) '
                                 'and same(r["description"], self.textFilter("description", data[0][j][1][1])))']}},
        returns=SeqOf()),
    sub('genSimpleSyntax', Lst(Str),
        {'scalar_type_record': 'not raised and result[0] == "scalar" and result[1]["class"] == "type"',
         'type_name_translated': 'same(result[1]["type"], py_replace(self.SMI_TYPES.get(data[0], data[0]), "-", "_"))',
         'no_constraints': '"constraints" not in result[1]'},
        ['C05', 'C16'], returns=Tup(Str, MapOf())),
    sub('genSimpleSyntax', Lst(Str, Any),
        {'scalar_type_record': 'not raised and result[0] == "scalar" and result[1]["class"] == "type"',
         'type_name_translated': 'same(result[1]["type"], py_replace(self.SMI_TYPES.get(data[0], data[0]), "-", "_"))',
         'constraints_iff_present': 'iff("constraints" in result[1], truthy(data[1]))',
         'constraints_as_given': 'implies(truthy(data[1]), same(result[1]["constraints"], data[1]))'},
        ['C05', 'C16'], returns=Tup(Str, MapOf())).variant('with-subtype'),
]

from contracts.codegen_base import LITDEFS

RANGE_REQ = ['forall(data[0], lambda r: is_tuple(r) and (len(r) == 1 or len(r) == 2) and forall(seq(r), lambda x: '
             'is_num(x) or (is_str(x) and len(x) >= 3 and (ISHEX(x) or ISBIN(x)))))']


def range_handler(fn, key):
    return sub(fn, Lst(SeqOf()),
               {'same_number_of_alternatives': 'implies(not raised, len(result["%s"]) == len(data[0]))' % key,
                'min_max_denote_the_literals_in_order': 'implies(not raised, forall(seq(result["%s"]), lambda j, r: '
                    'same(r["min"], DENU(data[0][j][0])) and same(r["max"], DENU(data[0][j][len(data[0][j]) - 1]))))' % key,
                'only_that_member': 'implies(not raised, forall(result, lambda k: k == "%s"))' % key},
               ['C05'], requires=RANGE_REQ, defs=LITDEFS,
               raises={'PySmiSemanticError': True, 'ValueError': True},
               loops={1: {'invariant': ['len(%s) == _i' % VARN[fn],
                                        'forall(seq(%s), lambda j, r: same(r["min"], DENU(data[0][j][0])) and '
                                        'same(r["max"], DENU(data[0][j][len(data[0][j]) - 1])))' % VARN[fn]]}},
               returns=MapOf())


VARN = {'genIntegerSubType': 'ranges', 'genOctetStringSubType': 'sizes'}

CONTRACTS += [
    range_handler('genIntegerSubType', 'range'),
    range_handler('genOctetStringSubType', 'size'),
    sub('genEnumSpec', Lst(SeqOf()),
        {'enumeration_holds_every_label': 'not raised and forall(data[0], lambda p: p[0] in result["enumeration"])',
         'labels_keep_their_values': 'implies(DISTINCT_LABELS(data[0]), forall(data[0], lambda p: '
                                     'same(result["enumeration"][p[0]], p[1])))',
         'nothing_else': 'forall(result["enumeration"], lambda k, v: exists(data[0], lambda p: p[0] == k and same(p[1], v)))'},
        ['C05'], requires=['forall(data[0], lambda p: is_tuple(p) and len(p) == 2 and is_str(p[0]))'], returns=MapOf()),
]

# ---------------------------------------------------------------- BITS, rows, tables, type declarations
CONTRACTS += [
    sub('genBits', Lst(SeqOf()),
        {'bits_type_record': 'not raised and result[0] == "scalar" and result[1]["type"] == "Bits" and result[1]["class"] == "type"',
         'every_named_bit_present': 'forall(data[0], lambda p: p[0] in result[1]["bits"])',
         'positions_kept': 'implies(DISTINCT_LABELS(data[0]), forall(data[0], lambda p: same(result[1]["bits"][p[0]], p[1])))',
         'nothing_else': 'forall(result[1]["bits"], lambda k, v: exists(data[0], lambda p: p[0] == k and same(p[1], v)))'},
        ['C05'],
        requires=['forall(data[0], lambda p: is_tuple(p) and len(p) == 2 and is_str(p[0]) and not absent(p[1]))'],
        loops={1: {'invariant': [
            'forall(lambda j: implies(0 <= j and j < _i, data[0][j][0] in outDict["bits"]))',
            'forall(outDict["bits"], lambda k, v: exists(data[0], lambda p: p[0] == k and same(p[1], v)))',
            'implies(DISTINCT_LABELS(data[0]), forall(lambda j: implies(0 <= j and j < _i, '
            'same(outDict["bits"][data[0][j][0]], data[0][j][1]))))',
            'outDict["type"] == "Bits" and outDict["class"] == "type"']}},
        returns=Tup(Str, MapOf())),
    sub('genConceptualTable', Lst(Tup(Str, Str)),
        {'table_node': 'not raised and result == ("table", "")'}, ['C06'],
        # the row type of a SEQUENCE OF is always in _symtable_rows (symtable.genConceptualTable), so genRow
        # yields ('row', '') here
        requires=['data[0] == ("row", "")'], returns=Tup(Str, Str)),
    sub('genRow', Lst(Str),
        {'row_iff_target_of_sequence_of': 'implies(py_replace(data[0], "-", "_") in self.symbolTable[self.moduleName[0]]["_symtable_rows"], '
                                          'not raised and result == ("row", ""))',
         'else_plain_type': 'implies(not raised and py_replace(data[0], "-", "_") not in self.symbolTable[self.moduleName[0]]["_symtable_rows"], '
                            'result[0] == "scalar" and same(result[1]["type"], py_replace(self.SMI_TYPES.get(data[0], data[0]), "-", "_")))'},
        ['C06'], requires=['self.moduleName[0] in self.symbolTable', 'is_dict(self.symbolTable[self.moduleName[0]])',
                           '"_symtable_rows" in self.symbolTable[self.moduleName[0]]',
                           'is_list(self.symbolTable[self.moduleName[0]]["_symtable_rows"])'],
        returns=Any),
    sub('genTypeDeclarationRHS', Lst(Tup(Any, Any)),
        # a plain SYNTAX on the right hand side: (parent type, {'type': attributes}); SEQUENCE / CHOICE right hand
        # sides carry no attributes and yield an empty record (which genTypeDeclaration skips)
        {'parent_type_kept': 'not raised and implies(truthy(data[0][1]), same(result[0], data[0][0]))',
         'type_member_value': 'implies(truthy(data[0][1]), same(result[1]["type"], data[0][1]) and '
                              'forall(result[1], lambda k: k == "type"))',
         'no_attributes_no_record': 'implies(not truthy(data[0][1]), is_dict(result) and not truthy(result))'},
        ['C05', 'C03'], returns=Any),
    sub('genTypeDeclarationRHS', Lst(Any, Any, Any, Any, Tup(Any, Any)),
        merged({'parent_type_kept': 'not raised and same(result[0], data[4][0])',
                'type_member_value': 'same(result[1]["type"], data[4][1])',
                'class_textual_convention': 'result[1]["class"] == "textualconvention"',
                'no_other_member': 'forall(result[1], lambda k: k in ("type", "class", "displayhint", "status", "description", "reference"))'},
               {k.replace('result[', 'result[1]['): v.replace('in result', 'in result[1]').replace('result["', 'result[1]["').replace('not raised and', '').replace('implies(not raised,', 'implies(True,')
                for k, v in merged(opt('displayhint', 'data[0]'), opt('status', 'data[1]'),
                                   opt('description', 'data[2]', TEXT), opt('reference', 'data[3]', TEXT)).items()}),
        ['C05', 'C03', 'C15'], returns=Tup(Any, MapOf())).variant('textual-convention'),
]

from pyvc import pybuiltins as _B2


def _sorted(it, args, kwargs):
    return pv.VList(seq=_B2.sorted_facts(it, it.seq_term(args[0])))


_B2.SPEC_FUNCS['SORTED'] = _sorted

# ---------------------------------------------------------------- compliance groups (C06)
comp_flat = z3.Function('comp_flat', pv.PVSeq, z3.StringSort(), z3.IntSort(), pv.PVSeq)


def _comp_items(modname_t, cm):
    """records of one MODULE part: every group in order, attributed to the MODULE name or this module"""
    items = PV.titems(cm)
    name = z3.If(pv.truthy_term(items[0]), items[0], PV.PStr(modname_t))
    x = z3.Const('map.x0', PV)
    rec = PV.PDict(pv.seq_of([lift('object'), lift('module')]),
                   z3.Store(z3.Store(pv.EMPTY_ARR, z3.StringVal('object'),
                                     PV.PStr(B.py_replace(PV.s(x), z3.StringVal('-'), z3.StringVal('_')))),
                            z3.StringVal('module'), name))
    groups = z3.If(PV.is_PList(items[1]), PV.litems(items[1]), PV.titems(items[1]))
    return z3.SeqMap(z3.Lambda([x], rec), groups)


def sp_FLAT(it, args, kwargs):
    """FLAT(modules, thisModule, i): concatenation over the first i MODULE parts of their group records; the
    defining equations are added at every mention (FLAT(ms, 0) = [], FLAT(ms, i) = FLAT(ms, i-1) ++ items(ms[i-1]))"""
    ms, mod, i = args
    seq = it.seq_term(ms)
    m = pv.as_term_str(mod)
    it_ = pv.as_term_int(i)
    ctx = it.ctx
    ctx.assume(comp_flat(seq, m, z3.IntVal(0)) == pv.EMPTY_SEQ)
    j = pv.ssimp(it_ - 1)
    ctx.assume(z3.Implies(z3.And(j >= 0, j < z3.Length(seq)),
                          comp_flat(seq, m, it_) == z3.Concat(comp_flat(seq, m, j), _comp_items(m, seq[j]))))
    return VSeqIter(comp_flat(seq, m, it_))


B.SPEC_FUNCS['FLAT'] = sp_FLAT

CONTRACTS += [
    sub('genCompliances', Lst(SeqOf()),
        {'groups_of_all_module_parts_in_order': 'same(seq(result), FLAT(data[0], self.moduleName[0], len(data[0])))'},
        ['C06'],
        requires=['forall(data[0], lambda cm: is_tuple(cm) and len(cm) == 2 and is_list(cm[1]))'],
        loops={1: {'invariant': ['same(seq(compliances), FLAT(data[0], self.moduleName[0], _i))']}},
        returns=SeqOf()),
]

# ---------------------------------------------------------------- INDEX clause (C06)
IDX_ELEM = ('lambda j, r: is_dict(r) and implies(data[0][j][1] not in self.smiv1IdxTypes, '
            'same(r["implied"], data[0][j][0]) and same(r["object"], data[0][j][1]))')
IDX_MOD = ('lambda j, r: implies(data[0][j][1] not in self.smiv1IdxTypes, same(r["module"], '
           'self._importMap.get(py_replace(data[0][j][1], "-", "_"), self.moduleName[0])))')

CONTRACTS += [
    sub('genTableIndex', Lst(SeqOf()),
        {'same_length_and_order': 'len(result[0]) == len(data[0])',
         # for every index that names an object (SMIv1 type names in INDEX are a relaxation, see finding D19)
         'implied_flag_and_object_kept': 'forall(seq(result[0]), IDX_ELEM)',
         'defining_module_attributed': 'forall(seq(result[0]), IDX_MOD)'},
        ['C06'], defs={'IDX_ELEM': IDX_ELEM, 'IDX_MOD': IDX_MOD},
        requires=['forall(data[0], lambda x: is_tuple(x) and len(x) == 2 and is_str(x[1]))'],
        loops={1: {'invariant': ['len(idxStrlist) == _i', 'forall(seq(idxStrlist), IDX_ELEM)',
                                 'forall(seq(idxStrlist), IDX_MOD)', 'is_list(fakeStrlist) and is_list(fakeSyms)']}},
        assigns=['self.fakeidx'], returns=Tup(SeqOf(), SeqOf(), SeqOf())),
]

# ---------------------------------------------------------------- base type walk (C05)
base_type = z3.Function('base_type', pv.PVArr, z3.StringSort(), z3.StringSort(), PV)
base_sub = z3.Function('base_sub', pv.PVArr, z3.StringSort(), z3.StringSort(), PV)
BASETYPES = ['Integer', 'Integer32', 'Bits', 'ObjectIdentifier', 'OctetString']


def _syntax_of(arr, n, m):
    sym = PV.dvals(arr[m])[n]
    syn = PV.dvals(sym)[z3.StringVal('syntax')]
    dflt = lift((('', ''), ''))
    syn = z3.If(syn == pv.PAbsent, dflt, syn)
    ty = PV.titems(syn)[0]
    own = PV.titems(syn)[1]
    return ty, own


def _unfold_base(it, arr, n, m):
    ty, own = _syntax_of(arr, n, m)
    ty0, ty1 = PV.titems(ty)[0], PV.titems(ty)[1]
    inbase = z3.Or(*[ty0 == lift(b) for b in BASETYPES])
    rec_t = base_type(arr, PV.s(ty0), PV.s(ty1))
    rec_s = base_sub(arr, PV.s(ty0), PV.s(ty1))
    it.ctx.assume(base_type(arr, n, m) == z3.If(inbase, ty, rec_t))
    merged_ = z3.If(PV.is_PList(rec_s),
                    z3.If(PV.is_PList(own), PV.PList(z3.Concat(PV.litems(own), PV.litems(rec_s))), rec_s), own)
    it.ctx.assume(base_sub(arr, n, m) == z3.If(inbase, own, merged_))


def sp_BASE(it, args, kwargs):
    """BASE(st, name, module): follow the parent types down to a base type (defining equation added per mention)"""
    st, n, m = args
    arr, nt, mt = _arr(st), pv.as_term_str(n), pv.as_term_str(m)
    _unfold_base(it, arr, nt, mt)
    return SAny(base_type(arr, nt, mt))


def sp_BASESUB(it, args, kwargs):
    """BASESUB: the enumeration / bits list along that chain: own list followed by the base's"""
    st, n, m = args
    arr, nt, mt = _arr(st), pv.as_term_str(n), pv.as_term_str(m)
    _unfold_base(it, arr, nt, mt)
    return SAny(base_sub(arr, nt, mt))


B.SPEC_FUNCS['BASE'] = sp_BASE
B.SPEC_FUNCS['BASESUB'] = sp_BASESUB

ST_SYNTAX_WF = ['forall(self.symbolTable, lambda m, t: is_dict(t))',
                'forall(lambda s_m, s_n: implies(s_m in self.symbolTable and s_n in self.symbolTable[s_m], '
                'is_dict(self.symbolTable[s_m][s_n]) and implies("syntax" in self.symbolTable[s_m][s_n], '
                'is_tuple(self.symbolTable[s_m][s_n]["syntax"]) and len(self.symbolTable[s_m][s_n]["syntax"]) == 2 and '
                'is_tuple(self.symbolTable[s_m][s_n]["syntax"][0]) and len(self.symbolTable[s_m][s_n]["syntax"][0]) == 2 and '
                'is_str(self.symbolTable[s_m][s_n]["syntax"][0][0]) and is_str(self.symbolTable[s_m][s_n]["syntax"][0][1]))))']

CONTRACTS += [
    Contract(
        id='intermediate.getBaseType', file=FILE, func='IntermediateCodeGen.getBaseType', serves=['C05', 'C12'],
        params={'self': SELF, 'symName': Str, 'module': Str},
        requires=ST_SYNTAX_WF, returns=Tup(Any, Any),
        ensures={
            'base_type_of_the_chain': 'implies(not raised, same(result[0], BASE(self.symbolTable, symName, module)))',
            'enumeration_own_then_base': 'implies(not raised, same(result[1], BASESUB(self.symbolTable, symName, module)))',
            'base_type_is_a_name_module_pair': 'implies(not raised, is_tuple(result[0]) and len(result[0]) == 2 and '
                                               'is_str(result[0][0]) and is_str(result[0][1]))',
            'unknown_module_or_symbol_is_an_error': 'implies(module not in self.symbolTable or '
                                                    'symName not in self.symbolTable[module], raised)',
            'table_unchanged': 'same(self.symbolTable, old(self.symbolTable))',
        },
        raises={'PySmiSemanticError': True},
    ),
]


# ---------------------------------------------------------------- DEFVAL (C05)
def defval_setup(kind):
    def setup(it, env):
        ctx = it.ctx
        if kind == 'number':
            v = it.fresh_int('defval')
        elif kind in ('hex', 'bin'):
            from contracts.codegen_base import lit_setup
            lit_setup(kind)(it, env)
            v = env.lookup('s')
        elif kind == 'string':
            body = it.fresh_str('text')
            ctx.assume(z3.Not(z3.Contains(body.t, z3.StringVal('"'))))
            env.set('text', body)
            st = z3.Concat(z3.StringVal('"'), body.t, z3.StringVal('"'))
            v = pv.SStr(st)
            ctx.assume(z3.Length(st) == z3.Length(body.t) + 2)
            ctx.assume(z3.SubString(st, 1, z3.Length(st) + (-1) - 1) == body.t)
        elif kind == 'label':
            v = it.fresh_str('label')
            # LOWERCASE_IDENTIFIER: starts with a digit or a lower-case letter, never a quote
            ctx.assume(z3.InRe(v.t, z3.Concat(z3.Star(z3.Range('0', '9')), z3.Range('a', 'z'),
                                              z3.Star(z3.Union(z3.Range('a', 'z'), z3.Range('A', 'z'), z3.Range('0', '9'),
                                                               z3.Re('-'))))))
        env.set('defval', v)
        env.set('data', pv.VList([v]))
    return setup


DV_REQ = ST_SYNTAX_WF + ST_WF[1:]
BT = 'BASE(self.symbolTable, objname, self.moduleName[0])[0]'
ISINT = '(%s == "Integer32" or %s == "Integer")' % (BT, BT)
DV_OK = 'not raised and "default" in result and same(result["default"]["basetype"], %s)' % BT


def defval_contract(kind, ensures, requires=()):
    ens = {k: (v if 'raised' in v else 'implies(not raised, %s)' % v) for k, v in ensures.items()}
    return Contract(id='intermediate.genDefVal', file=FILE, func='IntermediateCodeGen.genDefVal', serves=['C05'],
                    params={'self': SELF, 'data': NoneT, 'objname': Str},
                    requires=DV_REQ + ['len(objname) > 0'] + list(requires), defs=LITDEFS,
                    setup=defval_setup(kind), ensures=ens, returns=Any,
                    loops={1: {'invariant': ['is_list(defvalBits)', 'forall(seq(defvalBits), lambda p: is_tuple(p) and '
                                             'len(p) == 2 and is_str(p[0]) and not absent(p[1]))']}},
                    inline=['IntermediateCodeGen.transOpers'],
                    raises={'PySmiSemanticError': True}).variant(kind)


CONTRACTS += [
    defval_contract('number', {
        'decimal_as_written': 'implies(not raised, %s and same(result["default"]["value"], defval) and '
                              'result["default"]["format"] == "decimal")' % DV_OK.replace('not raised and ', '')}),
    defval_contract('hex', {
        'same_integer_for_integer_types': 'implies(not raised and %s, same(result["default"]["value"], '
                                          'str(ite(len(body) > 0, py_int_base(body, 16), py_int_base("0", 16)))) and '
                                          'result["default"]["format"] == "hex")' % ISINT,
        'digits_for_other_types': 'implies(not raised and not %s, same(result["default"]["value"], body) and '
                                  'result["default"]["format"] == "hex")' % ISINT,
        'basetype_recorded': 'implies(not raised, same(result["default"]["basetype"], %s))' % BT}),
    defval_contract('bin', {
        'same_integer_for_integer_types': 'implies(not raised and %s, same(result["default"]["value"], '
                                          'str(ite(len(body) > 0, py_int_base(body, 2), py_int_base("0", 2)))) and '
                                          'result["default"]["format"] == "bin")' % ISINT,
        'hex_digits_for_other_types': 'implies(not raised and not %s, result["default"]["format"] == "hex")' % ISINT,
        'basetype_recorded': 'implies(not raised, same(result["default"]["basetype"], %s))' % BT}),
    defval_contract('string', {
        # the text between the quotes; an empty default makes sense for OCTET STRING types only
        'text_between_the_quotes': 'implies(not raised and (len(text) > 0 or %s == "OctetString"), "default" in result and '
                                   'same(result["default"]["value"], text) and result["default"]["format"] == "string")' % BT,
        'empty_default_dropped_for_other_types': 'implies(not raised and len(text) == 0 and %s != "OctetString", '
                                                 'not truthy(result))' % BT}),
]

SUBS = 'BASESUB(self.symbolTable, objname, self.moduleName[0])'
CONTRACTS += [
    defval_contract('label', {
        # a label of the enumeration resolved through the type chain (imported types included)
        'enumeration_label': 'implies(not raised and %s != "ObjectIdentifier" and %s and is_list(%s) and defval in dict(%s), '
                             '"default" in result and result["default"]["format"] == "enum" and '
                             'same(result["default"]["value"], defval))' % (BT, ISINT, SUBS, SUBS),
        # an OID label: the resolved OID of that symbol in its defining module
        'oid_label': 'implies(not raised and %s == "ObjectIdentifier" and (defval in self.symbolTable[self.moduleName[0]] or '
                     'defval in self._importMap), "default" in result and result["default"]["format"] == "oid")' % BT,
        'basetype_recorded': 'implies(not raised and "default" in result, same(result["default"]["basetype"], %s))' % BT,
    }, requires=['self.moduleName[0] in self.symbolTable',
                 # symbol tables give BITS types the list of their named bits (symtable.genBits)
                 'implies(%s == "Bits", is_list(%s))' % (BT, SUBS)]),
]
CONTRACTS[-1].tier = 'thorough'      # ~300 paths with string-heavy path conditions: minutes

# ---------------------------------------------------------------- MODULE-IDENTITY, type declarations, OBJECT-TYPE
REV_REQ = ['implies(truthy(data[5]), is_list(data[5]) and len(data[5]) >= 1 and is_dict(data[5][0]) and '
           '"revision" in data[5][0])']
mi = handler('genModuleIdentity', Lst(Str, Any, Any, Any, Any, Any, OIDT),
             merged(common('data[0]', 'moduleidentity', ['revisions', 'lastupdated', 'organization', 'contactinfo',
                                                         'description'], 'data[6][0]'),
                    opt('revisions', 'data[5]'), opt('lastupdated', 'data[1]', TEXT), opt('organization', 'data[2]', TEXT),
                    opt('contactinfo', 'data[3]', TEXT), opt('description', 'data[4]', TEXT),
                    {'latest_revision_recorded': 'implies(not raised and truthy(data[5]), '
                                                 'same(self._moduleRevision, data[5][0]["revision"]))'}),
             ['C03', 'C15', 'C01', 'C12'], requires=REV_REQ)
mi.assigns = REG_ASSIGNS + ['self._moduleRevision']
CONTRACTS.append(mi)

td = Contract(id='intermediate.genTypeDeclaration', file=FILE, func='IntermediateCodeGen.genTypeDeclaration',
              serves=['C03', 'C05'], params={'self': SELF, 'data': Lst(Str, Any)}, inline=H_INLINE,
              requires=['implies(truthy(data[1]), is_tuple(data[1]) and len(data[1]) == 2 and '
                        'implies(truthy(data[1][0]), is_dict(data[1][1]) and "oid" not in data[1][1]))'],
              returns=MapOf(), assigns=REG_ASSIGNS, raises={'PySmiSemanticError': True},
              ensures={
                  'type_attributes_merged': 'implies(not raised and truthy(data[1]) and truthy(data[1][0]), '
                                            'forall(data[1][1], lambda k, v: k in result and same(result[k], v)))',
                  'class_defaults_to_type': 'implies(not raised and not (truthy(data[1]) and truthy(data[1][0]) and "class" in data[1][1]), '
                                            'result["class"] == "type")',
                  'registered_iff_it_has_a_parent_type': 'implies(not raised and truthy(data[1]) and truthy(data[1][0]), '
                                                         'same(self._out[%s], result))' % HY('data[0]'),
                  'sequence_types_are_not_symbols': 'implies(not raised and not (truthy(data[1]) and truthy(data[1][0])), '
                                                    'same(self._out, old(self._out)))',
              })
CONTRACTS.append(td)

# caller-facing summary of genDefVal (its five notations are verified separately above)
CONTRACTS.append(Contract(
    id='intermediate.genDefVal', file=FILE, func='IntermediateCodeGen.genDefVal', serves=['C05'], trusted=True,
    params={'self': SELF, 'data': Any, 'objname': Any},
    requires=[], returns=Any,
    ensures={'nothing_for_nothing': 'implies(not raised and not truthy(data), is_dict(result) and not truthy(result))',
             'a_default_record_or_nothing': 'implies(not raised and truthy(data) and truthy(objname), is_dict(result) and '
                                            '(not truthy(result) or ("default" in result and is_dict(result["default"]))))'},
    raises={'PySmiSemanticError': True},
    notes=['summary of the per-notation contracts intermediate.genDefVal[number|hex|bin|string|label]']))

COLS = 'self.symbolTable[self.moduleName[0]]["_symtable_cols"]'
NAME = HY('data[0]')
ot = handler('genObjectType', Lst(Str, Tup(Any, Any), Any, Any, Any, Any, Any, Any, Any, Any, OIDT),
             merged(common('data[0]', 'objecttype', ['nodetype', 'syntax', 'default', 'units', 'maxaccess', 'indices',
                                                     'reference', 'augmention', 'status', 'description'], 'data[10][0]'),
                    opt('units', 'data[2]'), opt('maxaccess', 'data[3]'), opt('status', 'data[4]'),
                    opt('description', 'data[5]', TEXT), opt('reference', 'data[6]', TEXT),
                    opt('syntax', 'data[1][1]'),
                    {
                        # C06: column iff member of a SEQUENCE, else what the SYNTAX says (table / row / scalar)
                        'nodetype_classification': 'implies(not raised and truthy(data[1][0]), same(result["nodetype"], '
                            'ite(%s in %s, "column", ite(data[1][0] == "Bits", "scalar", data[1][0]))))' % (NAME, COLS),
                        'nodetype_iff_syntax_kind': 'implies(not raised, iff("nodetype" in result, truthy(data[1][0])))',
                        'indices_in_order': 'implies(not raised, iff("indices" in result, truthy(data[8]) and truthy(data[8][0])) '
                                            'and implies("indices" in result, same(result["indices"], data[8][0])))',
                        'augments_names_the_row': 'implies(not raised, iff("augmention" in result, truthy(data[7])) and '
                            'implies("augmention" in result, same(result["augmention"]["object"], %s) and '
                            'same(result["augmention"]["module"], self.moduleName[0]) and '
                            'same(result["augmention"]["name"], %s)))' % (HY('data[7]'), NAME),
                    }),
             ['C03', 'C06', 'C15', 'C05', 'C01'],
             requires=['self.moduleName[0] in self.symbolTable', 'is_dict(self.symbolTable[self.moduleName[0]])',
                       '"_symtable_cols" in self.symbolTable[self.moduleName[0]]', 'is_list(%s)' % COLS,
                       'implies(truthy(data[8]), is_tuple(data[8]) and len(data[8]) == 3)',
                       'implies(truthy(data[7]), is_str(data[7]))'])
CONTRACTS.append(ot)


# =====================================================================================================
# genCode: per-module driver (C03 every registered symbol is emitted, C12 nothing of an earlier module is read,
# C15 text options are those of this call, C18 the summary objects are this module's own)
# =====================================================================================================
PER_MODULE = ['self._out', 'self._seenSyms', 'self._oids', 'self._enterpriseOid', 'self._moduleIdentityOid',
              'self._complianceOids', 'self._moduleRevision', 'self._rows', 'self._cols', 'self._importMap']
from pyvc.apply import havoc_location as _havoc_location


def _same(it, a, b):
    """engine-level equality of two values as a z3 formula / bool (identity for callables and objects)"""
    if isinstance(a, (pv.VBuiltin, pv.VFunc, pv.VObj, pv.VClass)) or isinstance(b, (pv.VBuiltin, pv.VFunc, pv.VObj, pv.VClass)):
        return a is b
    return lift(a) == lift(b)


def _handler_model(it, args, kwargs):
    """a clause handler as genCode sees it (the handlers have their own contracts): it runs in the generator as
    configured by this call, registers and summarises into the per-module state, or raises a package error"""
    from pyvc.interp import PyRaise
    ctx = it.ctx
    g = ctx.ghost
    selfv = args[0]
    exp = g['gc_expected']
    ctx.oblige('intermediate.genCode.dispatch.text_option_is_this_calls', _same(it, selfv.fields['genRules'].vals['text'], exp['text']),
               None, 'call-pre', info={'clause': 'self.genRules["text"] == kwargs.get("genTexts", False) when a handler runs'})
    ctx.oblige('intermediate.genCode.dispatch.text_filter_is_this_calls', exp['filter'](selfv.fields['textFilter']),
               None, 'call-pre', info={'clause': 'self.textFilter is kwargs["textFilter"] if given else the '
                                                 'whitespace-normalising default, when a handler runs'})
    ctx.oblige('intermediate.genCode.dispatch.symbol_table_is_this_calls', selfv.fields['symbolTable'] is exp['symtab'],
               None, 'call-pre', info={'clause': 'self.symbolTable is the symbolTable argument when a handler runs'})
    ctx.oblige('intermediate.genCode.dispatch.module_name_is_this_modules',
               _same(it, selfv.fields['moduleName'].items[0], exp['name']),
               None, 'call-pre', info={'clause': 'self.moduleName[0] == ast[0] when a handler runs'})
    g['gc_dispatches'] = g.get('gc_dispatches', 0) + 1
    if ctx.choose(2, 'handler-outcome') == 1:
        e = pv.VObj('PySmiError')
        e.fields['args'] = (it.fresh_str('msg'),)
        e.fields['msg'] = e.fields['args'][0]
        raise PyRaise(e, None)
    env = g['gc_env']
    for p in PER_MODULE:
        _havoc_location(it, env, p)
    return None


def _is_default_filter(it, f):
    """the default text filter: `lambda symbol, text: re.sub(r'\\s+', ' ', text)` created by this call"""
    import ast as _ast
    if not isinstance(f, pv.VFunc) or not isinstance(f.node, _ast.Lambda):
        return False
    return _ast.unparse(f.node.body).replace('"', "'") == "re.sub('\\\\s+', ' ', text)" and \
        [a.arg for a in f.node.args.args][1:] == ['text'] and len(f.node.args.args) == 2


def _gencode_setup(variant):
    def setup(it, env):
        ctx = it.ctx
        selfv = env.lookup('self')
        ht = pv.VObj('HandlerTable')
        from pyvc.interp import UNBOUND

        def hook(it_, obj, attr):
            if attr == '__getitem__':
                return pv.VBuiltin('handlersTable.__getitem__',
                                   lambda i, a, k: pv.VBuiltin('clause-handler', _handler_model))
            return UNBOUND
        ht.attr_hook = hook
        selfv.fields['handlersTable'] = ht
        kw = pv.VDict()
        exp = {}
        if variant == 'options':
            tf = build(TextFilter(), it, 'userFilter')
            gt = it.fresh_any('genTexts')
            cm = it.fresh_any('comments')
            for k, v in (('genTexts', gt), ('textFilter', tf), ('comments', cm)):
                kw.keys.append(k)
                kw.vals[k] = v
            exp['text'] = gt
            exp['filter'] = lambda f, tf=tf: f is tf
        else:
            exp['text'] = False
            exp['filter'] = lambda f: _is_default_filter(it, f)
        env.set('kwargs', kw)
        exp['symtab'] = env.lookup('symbolTable')
        exp['name'] = env.lookup('ast')[0]
        ctx.ghost['gc_expected'] = exp
        ctx.ghost['gc_env'] = env
        ctx.ghost['gc_dispatches'] = 0
        ctx.ghost['gc_entry'] = {k: selfv.fields[k] for k in ('_oids', '_complianceOids')}
    return setup


B.SPEC_FUNCS['ENTRY_OBJECT'] = lambda it, args, kwargs: args[0] is it.ctx.ghost['gc_entry'][args[1]]
B.SPEC_FUNCS['TEXT_FILTER_OK'] = lambda it, args, kwargs: it.ctx.ghost['gc_expected']['filter'](args[0])

RESET = ['forall(lambda s_k: s_k not in self._out)',
         'forall(lambda s_k: s_k not in self._oids)', 'len(self._complianceOids) == 0',
         'self._moduleIdentityOid is None', 'self._enterpriseOid is None', 'self._moduleRevision is None',
         'forall(lambda s_k: s_k not in self._rows)', 'forall(lambda s_k: s_k not in self._cols)',
         # C12: the numbering of fake index columns starts afresh for every module
         'self.fakeidx == 1000']
ORDER = 'self.symbolTable[self.moduleName[0]]["_symtable_order"]'

CONTRACTS += [
    # summaries of the callees of genCode that are not (yet) under a contract of their own
    Contract(id='intermediate.genImports', file=FILE, func='IntermediateCodeGen.genImports', serves=['C03'], trusted=True,
             params={'self': SELF, 'imports': Any}, returns=Tup(MapOf(), TupOf(Str)),
             assigns=['self._importMap', 'self._seenSyms'],
             requires=['forall(lambda s_k: s_k not in self._seenSyms)', 'forall(lambda s_k: s_k not in self._importMap)'],
             ensures={'an_imports_record_and_the_module_names': 'implies(not raised, is_dict(result[0]))'},
             raises={'PySmiSemanticError': True},
             notes=['assumed summary: genImports returns the imports record and the imported module names and touches '
                    'only the import map and the seen-symbol set (its own contract serves C16)']),
    Contract(id='intermediate.prepData', file=FILE, func='IntermediateCodeGen.prepData', serves=['C03'], trusted=True,
             params={'self': SELF, 'pdata': Any}, returns=Any, pure=True,
             ensures={'a_list': 'implies(not raised, is_list(result))'}, raises={'PySmiError': True},
             notes=['assumed summary: prepData maps the clause arguments through the sub-handlers (each under its own '
                    'contract) without touching the per-module state other than through them']),
    Contract(id='intermediate.genCode', file=FILE, func='IntermediateCodeGen.genCode', serves=['C03', 'C12', 'C15', 'C18'],
             params={'self': SELF, 'ast': Tup(Str, Any, Any, Opt(SeqOf())), 'symbolTable': MapOf(), 'kwargs': NoneT},
             cases=[('defaults', {'setup': _gencode_setup('defaults')}), ('options', {'setup': _gencode_setup('options')})],
             requires=['is_dict(symbolTable[ast[0]])', 'is_list(symbolTable[ast[0]]["_symtable_order"])',
                       # value type of `declarations` (grammar contracts): None or a tagged tuple
                       'implies(ast[3] is not None, forall(ast[3], lambda d: not truthy(d) or (is_tuple(d) and len(d) >= 1 and is_str(d[0]))))',
                       'forall(seq(symbolTable[ast[0]]["_symtable_order"]), lambda s: is_str(s))'],
             loops={
                 1: {'assigns': PER_MODULE,
                     'invariant': ['implies(_i == 0, %s)' % r for r in RESET] + [
                         'implies(_i == 0, not ENTRY_OBJECT(self._oids, "_oids") and not ENTRY_OBJECT(self._complianceOids, "_complianceOids"))',
                         'self.symbolTable is symbolTable', 'self.moduleName[0] == ast[0]', 'is_dict(outDict)']},
                 2: {'invariant': ['is_dict(outDict)',
                                   'forall(seq(%s), lambda j, s: implies(j < _i, s in self._out and same(outDict[s], self._out[s])))' % ORDER]},
             },
             ensures={
                 'every_registered_symbol_is_emitted':
                     'implies(not raised, forall(seq(%s), lambda j, s: implies(s != "meta", same(result[1][s], self._out[s]))))' % ORDER,
                 'a_registered_symbol_without_code_is_an_error':
                     'implies(exists(seq(%s), lambda j, s: s not in self._out), raised)' % ORDER,
                 'meta_names_the_module': 'implies(not raised, result[1]["meta"]["module"] == ast[0])',
                 'summary_is_this_modules': 'implies(not raised, result[0].name == ast[0] and same(result[0].oid, ast[1]) '
                                            'and same(result[0].revision, self._moduleRevision) '
                                            'and same(result[0].identity, self._moduleIdentityOid) '
                                            'and same(result[0].enterprise, self._enterpriseOid))',
                 'summary_collections_are_not_shared_with_the_previous_module':
                     'implies(not raised, not ENTRY_OBJECT(result[0].oids, "_oids") and '
                     'not ENTRY_OBJECT(result[0].compliance, "_complianceOids"))',
                 'text_options_are_this_calls': 'implies(not raised, TEXT_FILTER_OK(self.textFilter))',
             },
             raises={'PySmiCodegenError': True, 'PySmiError': True, 'PySmiSemanticError': True}),
]

# caller-facing summary of genCode (its clauses are verified above, per option case)
CONTRACTS.append(Contract(
    id='intermediate.genCode', file=FILE, func='IntermediateCodeGen.genCode', serves=['C03'], trusted=True,
    params={'self': SELF, 'ast': Any, 'symbolTable': Any, 'kwargs': Any},
    returns=Tup(Obj('MibInfo', name=Str, identity=Any, imported=TupOf(Str), oids=SetOf(), revision=Any, oid=Any,
                    enterprise=Any, compliance=SeqOf()), MapOf()),
    assigns=PER_MODULE + ['self.textFilter', 'self.symbolTable'],
    ensures={'a_summary_and_the_tree': 'implies(not raised, is_dict(result[1]))'},
    raises={'PySmiCodegenError': True, 'PySmiError': True, 'PySmiSemanticError': True},
    notes=['summary of intermediate.genCode[defaults|options]: returns the module summary and the intermediate tree '
           'or raises a package error']))
