"""Contract on JsonCodeGen.genIndex (C18): the per-module collection loop and the prefix compaction (fresh build)."""
from pyvc.contract import *


def _setup(it, env):
    it.world.models['json.dumps'] = lambda i, a, k: i.fresh_str('json')
    it.world.models['json.loads'] = lambda i, a, k: i.fresh_any('loaded')

FILE = 'pysmi/codegen/jsondoc.py'

SEC = ('identity', 'enterprise', 'compliance', 'oids')
SHAPE = ['is_dict(outDict["%s"]) and forall(outDict["%s"], lambda k, v: is_list(v))' % (s_, s_) for s_ in SEC]

MUT = ['outDict["%s"]' % s_ for s_ in SEC]

# the prefix test of the code (component-wise: both sides are terminated by a dot) and "lists every module of"
PFX = 'lambda p, o: (o + ".").startswith(p + ".")'
SUP = 'lambda pm, ms: set(pm).issuperset(ms)'
L4 = ['same(modData, MD)', 'forall(MD, lambda k, v: is_list(v))',
      # every entry of the compacted section is an entry of the full section
      'forall(unique_prefixes, lambda p, pm: p in MD and same(pm, MD[p]))',
      # cover: every OID visited so far has a component-wise prefix entry (that the entry also lists every module of the
      # OID - the superset test of the code - is decided by the bounded stand-in only: the solvers do not carry the
      # element-set reasoning under the existential)
      'forall(_KS, lambda j, o: implies(j < _i4, exists(unique_prefixes, lambda p, pm: PFX(p, o))))']

CONTRACTS = [
    Contract(id='jsondoc.genIndex.order', file=FILE, func='order', serves=['C18'], trusted=True,
             params={'top': Any}, returns=Any, pure=True, ensures={}, raises={},
             notes=['assumed summary: order() returns the same document with keys sorted and lists de-duplicated and sorted '
                    '(decided by the bounded stand-in: re-indexing changes nothing)']),
    Contract(
        id='jsondoc.genIndex', file=FILE, func='JsonCodeGen.genIndex', serves=['C18'],
        params={'self': Obj('JsonCodeGen'), 'processed': MapOf(), 'kwargs': Rec()},
        # shape of the compile() results: MibStatus objects whose identity / enterprise are None or dotted strings,
        # compliance a list and oids a list of dotted strings (a set in compile(): iteration order is irrelevant here)
        setup=_setup, defs={'PFX': PFX, 'SUP': SUP},
        requires=['forall(processed, lambda k, v: is_obj(v) and '
                  '(absent(fld(v, "identity")) or is_none(fld(v, "identity")) or is_str(fld(v, "identity"))) and '
                  '(absent(fld(v, "enterprise")) or is_none(fld(v, "enterprise")) or is_str(fld(v, "enterprise"))) and '
                  '(absent(fld(v, "compliance")) or (is_list(fld(v, "compliance")) and forall(seq(fld(v, "compliance")), lambda o: is_str(o)))) and '
                  '(absent(fld(v, "oids")) or (is_list(fld(v, "oids")) and forall(seq(fld(v, "oids")), lambda o: is_str(o)))))'],
        loops={
            1: {'invariant': SHAPE, 'mutates': MUT},
            2: {'index': '_i2', 'invariant': SHAPE, 'mutates': MUT},
            3: {'index': '_i3', 'invariant': SHAPE, 'mutates': MUT},
            4: {'index': '_i4', 'iter': '_KS', 'snap': {'MD': 'modData'},
                'invariant': L4},
            5: {'invariant': L4 + ['oid in MD']},
        },
        ensures={'returns_text': 'implies(not raised, is_str(result))'},
        raises={'PySmiCodegenError': True}),
]
