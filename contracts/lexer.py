"""Contracts on pysmi/lexer/smi.py (token rules)."""
from pyvc.contract import *

TOK = lambda **k: Obj('LexToken', value=Str, type=Str, lineno=Int, lexpos=Int,
                      lexer=Obj('Lexer', lineno=Int), **k)

CONTRACTS = [
    Contract(
        id='lexer.t_NUMBER', file='pysmi/lexer/smi.py', func='SmiV2Lexer.t_NUMBER', serves=['C05', 'C02', 'C11'],
        params={'self': Obj('SmiV2Lexer'), 't': TOK()},
        requires=["matches(t.value, '-?[0-9]+')", "t.type == 'NUMBER'"],
        let={'v': 'py_int(t.value)', 'M32': '4294967295', 'M64': '18446744073709551615'},
        ensures={
            'value': 'implies(not raised, result is t and t.value == v)',
            'number': 'implies(0 <= v and v <= M32, not raised and t.type == "NUMBER")',
            'negative': 'implies(-M32 <= v and v < 0, not raised and t.type == "NEGATIVENUMBER")',
            'number64': 'implies(M32 < v and v <= M64, not raised and t.type == "NUMBER64")',
            'negative64': 'implies(-M64 <= v and v < -M32, not raised and t.type == "NEGATIVENUMBER64")',
            'too_big': 'implies(v > M64 or v < -M64, raised and is_exc(exc, "PySmiLexerError") and exc.lineno == old(t.lineno))',
            'line_kept': 't.lineno == old(t.lineno) and t.lexer.lineno == old(t.lexer.lineno)',
        },
        raises={'PySmiLexerError': 'v > M64 or v < -M64'},
    ),
]
