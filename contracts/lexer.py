"""Contracts on pysmi/lexer/smi.py (token rules)."""
from pyvc.contract import *

TOK = lambda **k: Obj('LexToken', value=Str, type=Str, lineno=Int, lexpos=Int, lexer=LexerObj(), **k)
LX = Obj('SmiV2Lexer')
FILE = 'pysmi/lexer/smi.py'
TERM = r'\r\n|\n|\r'
# NL(s): number of line terminators in s = len(re.findall(r'\r\n|\n|\r', s))  (re is trusted)
NOCHANGE = 't.value == old(t.value) and t.type == old(t.type) and t.lineno == old(t.lineno)'


def rule(name, regex, ensures, requires=(), raises=None, loops=None, serves=('C11', 'C02')):
    ens = {k: v for k, v in ensures.items()}
    return Contract(id='lexer.' + name, file=FILE, func='SmiV2Lexer.' + name, serves=list(serves),
                    params={'self': LX, 't': TOK()}, requires=['matches(t.value, %r)' % regex] + list(requires),
                    ensures=ens, raises=raises or {}, loops=loops or {}, returns=Any,
                    notes=['regex=' + regex])


def skip_rule(name, regex, state=None, counts='NL(old(t.value))'):
    """a rule that yields no token: returns None; line accounting; optional state switch"""
    e = {'no_token': 'not raised and result is None',
         'line_accounting': 't.lexer.lineno == old(t.lexer.lineno) + %s' % counts,
         'token_untouched': NOCHANGE}
    if state is None:
        e['state_kept'] = 't.lexer.state == old(t.lexer.state) and t.lexer.begins == 0'
    else:
        e['state_switched'] = 't.lexer.state == %r and t.lexer.begins == 1' % state
    return rule(name, regex, e)


def token_rule(name, regex, state=None):
    e = {'token_returned_unchanged': 'not raised and result is t and ' + NOCHANGE,
         'line_accounting': 't.lexer.lineno == old(t.lexer.lineno)'}
    if state is None:
        e['state_kept'] = 't.lexer.state == old(t.lexer.state) and t.lexer.begins == 0'
    else:
        e['state_switched'] = 't.lexer.state == %r and t.lexer.begins == 1' % state
    return rule(name, regex, e)


CONTRACTS = [
    Contract(
        id='lexer.t_NUMBER', file='pysmi/lexer/smi.py', func='SmiV2Lexer.t_NUMBER', serves=['C05', 'C02', 'C11'],
        params={'self': Obj('SmiV2Lexer'), 't': TOK()},
        requires=["matches(t.value, '-?[0-9]+')", "t.type == 'NUMBER'"], notes=['regex=-?[0-9]+'],
        let={'v': 'py_int(t.value)', 'M32': '4294967295', 'M64': '18446744073709551615'},
        ensures={
            'value': 'implies(not raised, result is t and t.value == v)',
            'number': 'implies(0 <= v and v <= M32, not raised and t.type == "NUMBER")',
            'negative': 'implies(-M32 <= v and v < 0, not raised and t.type == "NEGATIVENUMBER")',
            'number64': 'implies(M32 < v and v <= M64, not raised and t.type == "NUMBER64")',
            'negative64': 'implies(-M64 <= v and v < -M32, not raised and t.type == "NEGATIVENUMBER64")',
            'too_big': 'implies(v > M64 or v < -M64, raised and is_exc(exc, "PySmiLexerError") and exc.lineno == old(t.lineno))',
            'line_kept': 't.lineno == old(t.lineno) and t.lexer.lineno == old(t.lexer.lineno)',
        },
        raises={'PySmiLexerError': 'v > M64 or v < -M64'},
    ),
    # ---- line ends: exactly one per match
    skip_rule('t_newline', TERM, counts='1'), skip_rule('t_macro_newline', TERM, counts='1'),
    skip_rule('t_exports_newline', TERM, counts='1'), skip_rule('t_choice_newline', TERM, counts='1'),
    skip_rule('t_comment_newline', TERM, state='INITIAL', counts='1'),
    # ---- blocks that are not tokens: every line end inside them still counts (C11 line accounting)
    skip_rule('t_macro_body', '.+?(?=END)'), skip_rule('t_exports_body', '[^;]+'),
    skip_rule('t_choice_body', r'[^\}]+'), skip_rule('t_comment_body', r'[^\r\n]+'),
    skip_rule('t_exports_end', ';', state='INITIAL'), skip_rule('t_choice_end', r'\}', state='INITIAL'),
    skip_rule('t_begin_comment', '--', state='comment'),
    token_rule('t_MACRO', 'MACRO', state='macro'), token_rule('t_EXPORTS', 'EXPORTS', state='exports'),
    token_rule('t_CHOICE', 'CHOICE', state='choice'), token_rule('t_macro_END', 'END', state='INITIAL'),
    # ---- identifiers
    rule('t_UPPERCASE_IDENTIFIER', '[A-Z][-a-zA-z0-9]*', {
        'forbidden_word_is_a_located_error': 'implies(old(t.value) in self.forbidden_words, raised and exc.lineno == old(t.lineno))',
        'trailing_hyphen_is_a_located_error': 'implies(old(t.value).endswith("-"), raised and exc.lineno == old(t.lineno))',
        'reserved_word_gets_its_token': 'implies(not raised, result is t and t.value == old(t.value) and '
                                        'same(t.type, self.reserved.get(old(t.value), "UPPERCASE_IDENTIFIER")))',
        'line_accounting': 't.lexer.lineno == old(t.lexer.lineno) and t.lineno == old(t.lineno)'},
        raises={'PySmiLexerError': 'old(t.value) in self.forbidden_words or old(t.value).endswith("-")'}),
    rule('t_LOWERCASE_IDENTIFIER', '[0-9]*[a-z][-a-zA-z0-9]*', {
        'trailing_hyphen_is_a_located_error': 'implies(old(t.value).endswith("-"), raised and exc.lineno == old(t.lineno))',
        'identifier_unchanged': 'implies(not raised, result is t and ' + NOCHANGE + ')',
        'line_accounting': 't.lexer.lineno == old(t.lexer.lineno)'},
        raises={'PySmiLexerError': 'old(t.value).endswith("-")'}),
    rule('t_BIN_STRING', "\\'[01]*\\'[bB]", {'literal_unchanged': 'not raised and result is t and ' + NOCHANGE,
                                           'line_accounting': 't.lexer.lineno == old(t.lexer.lineno)'},
         loops={1: {'invariant': ['True']}}, serves=('C02', 'C05', 'C11')),
    rule('t_HEX_STRING', "\\'[0-9a-fA-F]*\\'[hH]", {'literal_unchanged': 'not raised and result is t and ' + NOCHANGE,
                                                  'line_accounting': 't.lexer.lineno == old(t.lexer.lineno)'},
         loops={1: {'invariant': ['True']}}, serves=('C02', 'C05', 'C11')),
    rule('t_QUOTED_STRING', '\\"[^\\"]*\\"', {
        'text_unchanged': 'not raised and result is t and ' + NOCHANGE,
        'line_accounting': 't.lexer.lineno == old(t.lexer.lineno) + NL(old(t.value))'}, serves=('C02', 'C11', 'C15')),
    rule('t_error', '.+', {'illegal_character_is_a_located_error': 'raised and exc.lineno == old(t.lineno)'},
         raises={'PySmiLexerError': True}, serves=('C11',)),
]


# ---------------------------------------------------------------------------------------------------- reset
# C02 / C11 / C12: a parse starts with a fresh PLY lexer (state INITIAL, line 1) whatever the previous text left
# behind - reset() builds a new one on every call.  lex.lex is PLY's (trusted): it returns a new lexer object in its
# initial state, built from the rule functions of `module`.
def _lex_lex(it, args, kwargs):
    from pyvc import pv
    g = it.ctx.ghost
    g['lex_builds'] = g.get('lex_builds', 0) + 1
    o = pv.VObj('Lexer')
    o.fields['lineno'] = 1
    o.fields['state'] = 'INITIAL'
    g['lex_last'] = o
    g['lex_module'] = kwargs.get('module')
    g['lex_reflags'] = kwargs.get('reflags')
    return o


def _reset_setup(it, env):
    it.world.models['ply.lex.lex'] = _lex_lex
    it.world.models['ply.lex.NullLogger'] = lambda it_, a, k: None
    it.ctx.ghost['lex_builds'] = 0


from pyvc import pybuiltins as _BL
_BL.SPEC_FUNCS.setdefault('ghostv', lambda it, args, kwargs: it.ctx.ghost.get(args[0]))

CONTRACTS += [
    Contract(id='lexer.reset', file=FILE, func='SmiV2Lexer.reset', serves=['C02', 'C11', 'C12'],
             params={'self': Obj('SmiV2Lexer', _tempdir=Str, lexer=Any)}, setup=_reset_setup,
             cases=[('after-a-parse', {'params': {'self': Obj('SmiV2Lexer', _tempdir=Str,
                                                              lexer=Obj('Lexer', lineno=Int, state=Str))}}),
                    ('first', {'params': {'self': Obj('SmiV2Lexer', _tempdir=Str, lexer=NoneT)}})],
             ensures={
                 'a_new_lexer_is_built_on_every_reset': 'not raised and ghostv("lex_builds") == 1 and self.lexer is ghostv("lex_last")',
                 'fresh_state': 'self.lexer.lineno == 1 and self.lexer.state == "INITIAL"',
                 'built_from_this_rule_set': 'ghostv("lex_module") is self',
             }),
]
