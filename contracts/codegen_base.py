"""Contracts on pysmi/codegen/base.py (C05): literal classification and conversion."""
import z3
from pyvc.contract import *
from pyvc import pv

FILE = 'pysmi/codegen/base.py'

ISHEX = 'lambda s: is_str(s) and s.startswith("\'") and (s.endswith("\'h") or s.endswith("\'H"))'
ISBIN = 'lambda s: is_str(s) and s.startswith("\'") and (s.endswith("\'b") or s.endswith("\'B"))'
# the integer a range / size / DEFVAL literal denotes (int(text, base) itself is CPython's, trusted)
LITDEFS = {'ISHEX': ISHEX, 'ISBIN': ISBIN}

den = z3.Function('den', pv.PV, z3.IntSort())


def _DEN(it, args, kwargs):
    """DEN(x): the integer a literal denotes.  An uninterpreted function whose defining equation is added for the
    argument at every mention: a number is itself, 'digits'B / 'digits'H are int(digits, 2 / 16)."""
    from pyvc import pybuiltins as B
    PV = pv.PV
    t = pv.lift(args[0])
    s = PV.s(t)
    body = z3.SubString(s, 1, z3.Length(s) - 3)
    q = z3.StringVal("'")
    isbin = z3.And(PV.is_PStr(t), z3.PrefixOf(q, s), z3.Or(z3.SuffixOf(z3.StringVal("'b"), s), z3.SuffixOf(z3.StringVal("'B"), s)))
    ishex = z3.And(PV.is_PStr(t), z3.PrefixOf(q, s), z3.Or(z3.SuffixOf(z3.StringVal("'h"), s), z3.SuffixOf(z3.StringVal("'H"), s)))
    it.ctx.assume(den(t) == z3.If(PV.is_PInt(t), PV.i(t),
                                  z3.If(isbin, B.py_int_base(body, z3.IntVal(2)),
                                        z3.If(ishex, B.py_int_base(body, z3.IntVal(16)), B.py_int(s)))))
    return pv.SInt(den(t))


def _DENU(it, args, kwargs):
    """DEN without unfolding (for clauses that only hand the value on)"""
    return pv.SInt(den(pv.lift(args[0])))


def lit_setup(kind):
    """build the literal as the lexer delivers it: 'digits'H / 'digits'B (regexes of t_HEX_STRING / t_BIN_STRING)"""
    def setup(it, env):
        ctx = it.ctx
        body = it.fresh_str('body')
        suffix = it.fresh_str('suffix')
        if kind == 'hex':
            digs = z3.Union(z3.Range('0', '9'), z3.Range('a', 'f'), z3.Range('A', 'F'))
            ctx.assume(z3.Or(suffix.t == z3.StringVal('h'), suffix.t == z3.StringVal('H')))
        else:
            digs = z3.Range('0', '1')
            ctx.assume(z3.Or(suffix.t == z3.StringVal('b'), suffix.t == z3.StringVal('B')))
        ctx.assume(z3.InRe(body.t, z3.Star(digs)))
        env.set('body', body)
        st = z3.Concat(z3.StringVal("'"), body.t, z3.StringVal("'"), suffix.t)
        env.set('s', pv.SStr(st))
        # consequences of the shape, stated once so that the solver need not rediscover them
        ctx.assume(z3.Length(suffix.t) == 1)
        ctx.assume(z3.Length(st) == z3.Length(body.t) + 3)
        ctx.assume(z3.SubString(st, 1, z3.Length(st) + (-2) - 1) == body.t)
    return setup


CONTRACTS = [
    Contract(id='base.isHex', file=FILE, func='AbstractCodeGen.isHex', serves=['C05'],
             params={'s': Any}, defs=LITDEFS, requires=['implies(is_str(s), len(s) >= 1)', 'is_str(s) or is_num(s) or is_list(s)'],
             returns=Bool, ensures={'decides_the_quote_suffix_shape': 'not raised and iff(truthy(result), ISHEX(s))'}),
    Contract(id='base.isBinary', file=FILE, func='AbstractCodeGen.isBinary', serves=['C05'],
             params={'s': Any}, defs=LITDEFS, requires=['implies(is_str(s), len(s) >= 1)', 'is_str(s) or is_num(s) or is_list(s)'],
             returns=Bool, ensures={'decides_the_quote_suffix_shape': 'not raised and iff(truthy(result), ISBIN(s))'}),
    Contract(id='base.str2int', file=FILE, func='AbstractCodeGen.str2int', serves=['C05'],
             params={'self': Obj('AbstractCodeGen'), 's': Any}, defs=LITDEFS,
             requires=['is_num(s) or (is_str(s) and len(s) >= 3 and (ISHEX(s) or ISBIN(s)))'],
             returns=Int,
             ensures={
                 'denotes': 'implies(not raised, result == DEN(s))',
                 'number_is_itself': 'implies(is_num(s), not raised and result == s)',
                 'empty_literal_is_an_error': 'implies(is_str(s) and len(s) == 3, raised)',
                 'non_empty_literal_converts': 'implies(is_str(s) and len(s) > 3 and valid_digits(s), not raised)',
             },
             raises={'PySmiSemanticError': 'is_str(s) and len(s) == 3', 'ValueError': 'is_str(s) and not valid_digits(s)'}),
]


def _valid_digits(it, args, kwargs):
    """the body of a quoted literal consists of digits of its base"""
    from pyvc import pybuiltins as B
    s = pv.as_term_str(args[0])
    body = z3.SubString(s, 1, z3.Length(s) - 3)
    hexd = z3.Union(z3.Range('0', '9'), z3.Range('a', 'f'), z3.Range('A', 'F'))
    isbin = z3.Or(z3.SuffixOf(z3.StringVal("'b"), s), z3.SuffixOf(z3.StringVal("'B"), s))
    return pv.mkbool(z3.If(isbin, z3.InRe(body, z3.Plus(z3.Range('0', '1'))), z3.InRe(body, z3.Plus(hexd))))


from pyvc import pybuiltins as _B
_B.SPEC_FUNCS['valid_digits'] = _valid_digits
_B.SPEC_FUNCS['DEN'] = _DEN
_B.SPEC_FUNCS['DENU'] = _DENU
