"""Contracts on pysmi/reader (C14): which file names a module name may be looked up under.

getMibVariants of AbstractReader is executed for every combination of the four matching flags (symbolic booleans:
the paths fork) with a symbolic module name and a list of two arbitrary extensions; FileReader.getMibVariants for an
arbitrary .index map.  str.upper / str.lower are uninterpreted (py_upper / py_lower): the clauses speak about
"the upper-cased name", whatever CPython makes of it.  The directory walk, the read and the ZIP traversal are
decided by bounded stand-ins (pyvc/bounded/c14_*.py), not here."""
from pyvc.contract import *

RB = 'pysmi/reader/base.py'
RL = 'pysmi/reader/localfile.py'

FLAGS = dict(originalMatching=Bool, uppercaseMatching=Bool, lowcaseMatching=Bool, fuzzyMatching=Bool)
EXTS = Rec(exts=Lst(Str, Str))

# a variant is (alias, alias + extension) with one of the extensions asked for
PAIR = ('implies(not raised, forall(seq(list(result)), lambda v: is_tuple(v) and len(v) == 2 and '
        '(v[1] == v[0] + options["exts"][0] or v[1] == v[0] + options["exts"][1])))')
ALIAS = ('lambda a: a == mibname or a == mibname.upper() or a == mibname.lower() or '
         '(truthy(self.fuzzyMatching) and (a == (mibname + "-mib").upper() or a == (mibname + "-mib").lower() or '
         ' exists(lambda n: 0 <= n and (a == mibname[:n] or a == mibname.upper()[:n] or a == mibname.lower()[:n]))))')

CONTRACTS = [
    Contract(
        id='reader.getMibVariants', file=RB, func='AbstractReader.getMibVariants', serves=['C14'],
        params={'self': Obj('AbstractReader', **FLAGS), 'mibname': Str, 'options': EXTS},
        defs={'ALIAS': ALIAS}, returns=Any, pure=True,
        ensures={
            'never_raises': 'not raised',
            'a_file_name_is_an_alias_plus_a_requested_extension': PAIR,
            'aliases_are_the_documented_variants_of_the_name': 'implies(not raised, forall(seq(list(result)), lambda v: ALIAS(v[0])))',
            'the_name_as_given_comes_first_with_every_extension':
                'implies(not raised and truthy(self.originalMatching), same(list(result)[0], (mibname, mibname + options["exts"][0])) and '
                'same(list(result)[1], (mibname, mibname + options["exts"][1])))',
            'an_enabled_case_variant_is_offered': 'implies(not raised and truthy(self.uppercaseMatching), '
                'exists(seq(list(result)), lambda v: v[0] == mibname.upper() and v[1] == mibname.upper() + options["exts"][0]))',
            'disabled_matching_offers_nothing_else':
                'implies(not raised and not truthy(self.fuzzyMatching) and not truthy(self.uppercaseMatching) and not truthy(self.lowcaseMatching), '
                'len(list(result)) == ite(truthy(self.originalMatching), 2, 0))',
            'depends_on_nothing_but_the_flags_the_name_and_the_extensions': 'same(self.originalMatching, old(self.originalMatching))',
        },
        raises={}),
    Contract(
        id='reader.FileReader.getMibVariants[indexed]', file=RL, func='FileReader.getMibVariants', serves=['C14'],
        params={'self': Obj('FileReader', useIndexFile=Const(True), _indexLoaded=Const(True), _mibIndex=MapOf(), _path=Str, **FLAGS),
                'mibname': Str, 'options': EXTS},
        requires=['mibname in self._mibIndex'], returns=Any,
        ensures={
            'an_index_entry_takes_precedence_and_is_the_only_variant':
                'not raised and len(list(result)) == 1 and same(list(result)[0], (mibname, self._mibIndex[mibname]))',
        },
        raises={}),
]
