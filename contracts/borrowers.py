"""Contracts on pysmi/borrower/base.py (C19): flavour check and extension-restricted look-up."""
from pyvc.contract import *
from pyvc.models import components as CM


def setup(it, env):
    CM.init_ghost(it, env, None)
    it.ctx.ghost['reader_calls'] = 0


SELF = Obj('AbstractBorrower', _reader=Comp('reader'), genTexts=Bool, exts=Any)

ENS = {
    'flavour_mismatch_is_not_found': 'implies(truthy(options.get("genTexts")) != self.genTexts, '
                                     'raised and is_exc(exc, "PySmiFileNotFoundError") and ghost("reader_calls") == 0)',
    'asks_reader_once': 'implies(truthy(options.get("genTexts")) == self.genTexts, ghost("reader_calls") == 1 '
                        'and same(ghost("reader_last_name"), mibname))',
    'hands_on_verbatim': 'implies(not raised, same(result, ghost("reader_last")))',
    'extensions_forwarded': 'implies(ghost("reader_calls") == 1, same(ghost("reader_last_kwargs")["exts"], '
                            'old(options.get("exts", self.exts))))',
    'flavour_forwarded': 'implies(ghost("reader_calls") == 1 and "genTexts" in old(options), '
                         'same(ghost("reader_last_kwargs")["genTexts"], old(options.get("genTexts"))))',
}

CONTRACTS = [
    Contract(
        id='borrower.AbstractBorrower.getData', file='pysmi/borrower/base.py', func='AbstractBorrower.getData',
        serves=['C19'],
        params={'self': SELF, 'mibname': Str, 'options': Rec()},
        setup=setup, ensures=ENS,
        raises={'PySmiError': True},
        cases=[('no-options', {'params': {'options': Rec()}}),
               ('genTexts', {'params': {'options': Rec(genTexts=Any)}}),
               ('genTexts+exts', {'params': {'options': Rec(genTexts=Any, exts=Any)}})],
    ),
]
