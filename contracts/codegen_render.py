"""Contracts on JsonCodeGen.genCode / PySnmpCodeGen.genCode (C03): the document handed back is exactly what the
template renders from the intermediate tree of this module - nothing is edited afterwards.  Jinja2 is a trusted
dependency: Environment(...).get_template(name).render(mib=context) returns some text or raises TemplateError."""
import z3
from pyvc.contract import *
from pyvc import pv
from pyvc import pybuiltins as B
from contracts.intermediate import SELF


def _with_template(it, env):
    def mk(i):
        t = i.fresh_str('dstTemplate')
        i.ctx.assume(z3.Length(t.t) > 0)
        return t
    it.ctx.ghost['with_template'] = mk
    _jinja_models(it, env)


def _jinja_models(it, env):
    from pyvc.interp import PyRaise, UNBOUND
    g = it.ctx.ghost
    g['renders'] = 0

    def render(i, a, k):
        g['renders'] += 1
        g['render_arg'] = k.get('mib')
        if i.ctx.choose(2, 'render-outcome') == 1:
            e = pv.VObj('TemplateError')
            e.fields['args'] = (i.fresh_str('jmsg'),)
            raise PyRaise(e, None)
        t = i.fresh_str('rendered')
        g['render_text'] = t
        return t

    def get_template(i, a, k):
        g['template_name'] = a[0]
        t = pv.VObj('Template')
        t.attr_hook = lambda i_, o, attr: pv.VBuiltin('Template.render', render) if attr == 'render' else UNBOUND
        return t

    def environment(i, a, k):
        e = pv.VObj('Environment')
        e.fields['filters'] = pv.VDict()
        e.attr_hook = lambda i_, o, attr: pv.VBuiltin('Environment.get_template', get_template) \
            if attr == 'get_template' else UNBOUND
        return e
    it.world.models['jinja2.Environment'] = environment
    it.world.models['jinja2.FileSystemLoader'] = lambda i, a, k: None
    it.world.exc_parents.setdefault('TemplateError', 'Exception')
    kw = pv.VDict()
    if g.get('with_template'):
        kw.keys.append('dstTemplate')
        kw.vals['dstTemplate'] = g['with_template'](it)
    env.set('kwargs', kw)


B.SPEC_FUNCS['RENDERED'] = lambda it, args, kwargs: it.ctx.ghost.get('render_text')
B.SPEC_FUNCS['RENDER_ARG'] = lambda it, args, kwargs: it.ctx.ghost.get('render_arg')
B.SPEC_FUNCS.setdefault('ghostv', lambda it, args, kwargs: it.ctx.ghost.get(args[0]))

JSELF = Obj('JsonCodeGen', **{k: v for k, v in SELF.k.items()})

CONTRACTS = [
    Contract(id='jsondoc.genCode', file='pysmi/codegen/jsondoc.py', func='JsonCodeGen.genCode', serves=['C03'],
             params={'self': JSELF, 'ast': Any, 'symbolTable': MapOf(), 'kwargs': NoneT},
             cases=[('shipped-template', {'setup': _jinja_models,
                                          'ensures': {'shipped_template': 'implies(not raised, ghostv("template_name") == self.TEMPLATE_NAME)'}}),
                    ('user-template', {'setup': _with_template,
                                       'ensures': {'user_template': 'implies(not raised, ghostv("template_name") == kwargs["dstTemplate"])'}})],
             ensures={
                 'document_is_the_rendered_template': 'implies(not raised, ghostv("renders") == 1 and result[1] is RENDERED())',
                 'template_failure_is_a_package_error': 'implies(raised, is_exc(exc, "PySmiError"))',
             },
             raises={'PySmiError': True, 'PySmiCodegenError': True, 'PySmiSemanticError': True}),
]
