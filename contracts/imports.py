"""Contracts on the two genImports (C08: MibInfo.imported names every module of the IMPORTS clause; C16: SMIv1 imports
are rewritten to the SMIv2 modules of the conversion table; C12: the result does not depend on set iteration order).

The conversion table is *symbolic* here (any table of the shape module -> symbol -> list of (module, symbol) pairs
in which no entry points back to its own module): the code is proved for every such table; the shipped
table is checked against that shape, and against the SMIv2 modules it points to, by the table lemmas
(pyvc/extras_tables.py)."""
from pyvc.contract import *

ST = 'pysmi/codegen/symtable.py'
IM = 'pysmi/codegen/intermediate.py'

# shape of the parser's IMPORTS value: module name -> list of symbol names
WF_IMPORTS = 'forall(imports, lambda k, v: is_list(v) and forall(seq(v), lambda s: is_str(s)))'
# module names are upper-case identifiers (grammar): in particular no module is called "class"
NOCLASS = '"class" not in imports'
# shape of the conversion table
WF_TABLE = ('forall(self.convertImportv2, lambda m, t: is_dict(t) and forall(t, lambda s, l: (is_list(l) or is_tuple(l)) and '
            'forall(seq(l), lambda p: is_tuple(p) and len(p) == 2 and is_str(p[0]) and is_str(p[1]) '
            'and p[0] != m and p[0] != "class")))')

ST_SELF = Obj('SymtableCodeGen', _importMap=MapOf(), convertImportv2=MapOf())

# the keys of the IMPORTS dict only grow; its values stay lists of strings; toDel holds (module, symbol) pairs of strings
KEEP = [NOCLASS, 'forall(K0, lambda k, v: k in imports)', 'forall(imports, lambda k, v: is_list(v))',
        'forall(imports, lambda k, v: forall(seq(v), lambda s: is_str(s)))',
        'forall(seq(toDel), lambda d: is_tuple(d) and len(d) == 2 and is_str(d[0]) and is_str(d[1]) and d[0] in imports)']
CONST = ['forall(self.constImports, lambda k: k in imports)']
# after the merge of the constant imports a value may be the table's own tuple
WF2 = 'forall(imports, lambda k, v: is_list(v) or is_tuple(v))'
KEEP2 = [KEEP[0], KEEP[1], WF2, KEEP[4]]

CONTRACTS = [
    Contract(
        id='symtable.symTrans', file=ST, func='SymtableCodeGen.symTrans', serves=['C16', 'C08'],
        params={'self': Obj('SymtableCodeGen'), 'symbol': Str}, pure=True, returns=Any,
        ensures={'a_tuple_of_names': 'not raised and is_tuple(result) and len(result) >= 1 and forall(seq(result), lambda s: is_str(s))',
                 'macro_names_become_their_classes': 'implies(symbol in self.symsTable, same(result, self.symsTable[symbol]))',
                 'other_names_stay': 'implies(symbol not in self.symsTable, same(result, (symbol,)))'},
        raises={}),
    Contract(
        id='symtable.genImports', file=ST, func='SymtableCodeGen.genImports', serves=['C08', 'C16', 'C12'],
        params={'self': ST_SELF, 'imports': MapOf()}, heavy=True, prune_ms=250,
        requires=[WF_IMPORTS, NOCLASS, WF_TABLE], inline=['SymtableCodeGen.transOpers'],
        loops={
            1: {'snap': {'K0': 'imports'}, 'invariant': KEEP},
            2: {'index': '_i2', 'invariant': KEEP + ['module in imports', 'module in self.convertImportv2']},
            3: {'index': '_i3', 'invariant': KEEP + ['module in imports', 'module in self.convertImportv2']},
            4: {'invariant': KEEP},
            6: {'iter': '_mods', 'assigns': ['imports'], 'invariant': KEEP2 + CONST + ['forall(_mods, lambda m: m in imports)']},
            7: {'invariant': KEEP2 + CONST + ['forall(_mods, lambda m: m in imports)', 'is_tuple(symbols) and forall(seq(symbols), lambda s: is_str(s))']},
        },
        ensures={
            'every_module_of_the_imports_clause_is_reported':
                'implies(not raised, forall(old(imports), lambda k, v: k in members(result[1])))',
            'the_constant_base_modules_are_reported':
                'implies(not raised, forall(self.constImports, lambda k: k in members(result[1])))',
            'only_modules_of_the_rewritten_clause_are_reported':
                'implies(not raised, forall(seq(result[1]), lambda m: m in imports))',
            'reported_in_sorted_order_without_duplicates':
                'implies(not raised, forall(lambda i: implies(0 <= i and i + 1 < len(result[1]), result[1][i] < result[1][i + 1])))',
        },
        assigns=['self._importMap', 'imports'], returns=Tup(MapOf(), TupOf(Str)),
        raises={'ValueError': True},
        notes=['standalone', 'inplace_extension_allowed: the IMPORTS dict of the syntax tree is in the frame of genImports (it is rewritten in place by design)',
               'not decided: that list.remove never raises ValueError in the clean-up loop (a multiset argument: one '
               'toDel entry per occurrence of a converted symbol)',
               'iteration over imports[module] uses the list as it is when the loop starts; the body appends only to '
               'lists of target modules, which differ from the module being visited (precondition on the table)']),
    # caller-facing summary of symtable.genImports: the clauses verified above; the one thing it adds is the
    # assumption that the clean-up loop's list.remove never raises (see the note)
    Contract(
        id='symtable.genImports', file=ST, func='SymtableCodeGen.genImports', serves=['C08'], trusted=True,
        params={'self': ST_SELF, 'imports': MapOf()}, returns=Tup(MapOf(), TupOf(Str)),
        requires=[WF_IMPORTS, NOCLASS],
        assigns=['self._importMap', 'imports'],
        ensures={
            'every_module_of_the_imports_clause_is_reported':
                'implies(not raised, forall(old(imports), lambda k, v: k in members(result[1])))',
        },
        raises={},
        notes=['summary of the verified contract symtable.genImports (contracts/imports.py); ASSUMED on top of it: '
               'list.remove in the clean-up loop never raises ValueError (one toDel entry per occurrence of a converted '
               'symbol - a multiset argument that is not machine-checked)']),
]

# ------------------------------------------------------------------------------------------- intermediate.genImports
IM_SELF = Obj('IntermediateCodeGen', _importMap=MapOf(), _seenSyms=SetOf(), convertImportv2=MapOf())
# the "imports" record: besides the class member, every entry is the strictly ascending list of the distinct symbols
# imported from that module - a function of the IMPORTS clause alone, whatever order set() iterates in (C12)
REC_A = ('forall(outDict, lambda m, l: m == "class" or (m in imports and is_list(l) and len(l) > 0 and '
         'forall(lambda i: implies(0 <= i and i + 1 < len(l), str_of(l[i]) < str_of(l[i + 1])))))')
REC_B = 'forall(outDict, lambda m, l: m == "class" or forall(seq(l), lambda x: x in members(imports[m])))'
REC_C = 'forall(outDict, lambda m, l: m == "class" or forall(seq(imports[m]), lambda x: x in members(l)))'
L6X = ['is_dict(outDict)', 'forall(outDict, lambda m, l: m == "class" or is_list(l))', 'forall(_mods, lambda m: m in imports)']
CONTRACTS += [
    Contract(
        id='intermediate.genImports', file=IM, func='IntermediateCodeGen.genImports', serves=['C12', 'C16', 'C08'],
        params={'self': IM_SELF, 'imports': MapOf()}, heavy=True, prune_ms=250,
        requires=[WF_IMPORTS, NOCLASS, WF_TABLE], inline=['IntermediateCodeGen.transOpers'],
        loops={
            1: {'snap': {'K0': 'imports'}, 'invariant': KEEP},
            2: {'index': '_i2', 'invariant': KEEP + ['module in imports', 'module in self.convertImportv2']},
            3: {'index': '_i3', 'invariant': KEEP + ['module in imports', 'module in self.convertImportv2']},
            4: {'invariant': KEEP},
            6: {'index': '_i6', 'iter': '_mods', 'assigns': ['imports'], 'invariant': KEEP2 + CONST + L6X},
            # C12: the symbols of one module are collected in ascending order - symbols is a prefix of the sorted
            # sequence of the distinct symbols - not in the order a set happens to yield them
            7: {'index': '_i7', 'iter': '_syms',
                'invariant': KEEP2 + CONST + L6X + ['module in imports', 'is_list(symbols) and len(symbols) == _i7',
                                             'forall(seq(symbols), lambda j, s: s == _syms[j])',
                                             'forall(lambda i: implies(0 <= i and i + 1 < len(_syms), _syms[i] < _syms[i + 1]))']},
        },
        ensures={
            'every_module_of_the_imports_clause_is_reported':
                'implies(not raised, forall(old(imports), lambda k, v: k in members(result[1])))',
            'the_constant_base_modules_are_reported':
                'implies(not raised, forall(self.constImports, lambda k: k in members(result[1])))',
            'only_modules_of_the_rewritten_clause_are_reported':
                'implies(not raised, forall(seq(result[1]), lambda m: m in imports))',
            'reported_in_sorted_order_without_duplicates':
                'implies(not raised, forall(lambda i: implies(0 <= i and i + 1 < len(result[1]), result[1][i] < result[1][i + 1])))',
        },
        assigns=['self._importMap', 'self._seenSyms', 'imports'], returns=Tup(MapOf(), TupOf(Str)),
        raises={'ValueError': True},
        notes=['standalone', 'inplace_extension_allowed: the IMPORTS dict of the syntax tree is in the frame of genImports',
               'not decided: that list.remove never raises ValueError in the clean-up loop (multiset argument)',
               'not decided: that the ascending symbol list established by the inner collection loop is what ends up in the '
               'imports record (two statements: outDict[module] = []; outDict[module].extend(symbols)) and that no symbol is lost']),
    # C16 / C05: the type an object refers to, in the symbol table: the SMIv2 class name (Counter -> Counter32, Gauge ->
    # Gauge32, NetworkAddress -> IpAddress, INTEGER -> Integer32 through typeClasses - data checked by the table lemmas),
    # attributed to the module the TRANSLATED name is imported from (genImports has rewritten the imports already), base
    # types to no module, anything else to this module
    Contract(
        id='symtable.genSimpleSyntax', file=ST, func='SymtableCodeGen.genSimpleSyntax', serves=['C16', 'C05', 'C06'],
        params={'self': Obj('SymtableCodeGen', _importMap=MapOf(), moduleName=Lst(Str)),
                'data': OneOf(Lst(Str), Lst(Str, Any)), 'classmode': Any},
        inline=['SymtableCodeGen.transOpers'], returns=Any,
        let={'T': 'TRANS(ite(data[0] in self.typeClasses, self.typeClasses.get(data[0]), data[0]))'},
        ensures={
            'the_smiv2_class_name': 'not raised and result[0][0] == T',
            'base_types_belong_to_no_module': 'implies(T in self.baseTypes, result[0][1] == "")',
            'other_types_belong_to_the_module_the_translated_name_is_imported_from':
                'implies(T not in self.baseTypes, same(result[0][1], ite(T in self._importMap, self._importMap.get(T), self.moduleName[0])))',
            'the_subtype_is_kept': 'same(result[1], ite(len(data) == 2 and truthy(data[1]), data[1], ""))',
            'observer': 'same(self._importMap, old(self._importMap))',
        },
        raises={}),
]
