"""Contracts on pysmi/searcher/*.py (C10): the file based searchers answer 'up to date' exactly when a
transformed file for that exact module name exists whose time stamp is not older than the source's."""
from pyvc.contract import *
from pyvc.models import osfs


def fs_setup(it, env):
    osfs.init_fs(it, env)


BASE = 'pjoin(self._path, mibname)'

CONTRACTS = [
    Contract(
        id='searcher.AnyFileSearcher.fileExists', file='pysmi/searcher/anyfile.py', func='AnyFileSearcher.fileExists',
        serves=['C10'],
        params={'self': Obj('AnyFileSearcher', _path=Str, exts=SeqOf(Str)), 'mibname': Str, 'mtime': Int,
                'rebuild': Any},
        setup=fs_setup, inline=['decode'],
        defs={'FRESH': 'lambda sfx: isfile(%s + sfx) and mtime_of(%s + sfx) >= mtime' % (BASE, BASE)},
        let={'fresh_exists': 'exists(self.exts, lambda sfx: FRESH(sfx))', 'F0': 'fs("fs_files")'},
        loops={1: {'invariant': ['forall(self.exts, lambda j, sfx: implies(j < _i, not FRESH(sfx)))',
                                 'fs("fs_faults") == 0', 'not truthy(rebuild)']}},
        ensures={
            'rebuild_overrides_age': 'implies(truthy(rebuild), not raised)',
            'always_answers_by_exception': 'implies(not truthy(rebuild), raised)',
            'fresh_iff_not_modified': 'implies(not truthy(rebuild) and fs("fs_faults") == 0, '
                                      'iff(fresh_exists, is_exc(exc, "PySmiFileNotModifiedError")))',
            'else_not_found': 'implies(not truthy(rebuild) and fs("fs_faults") == 0 and not fresh_exists, '
                              'is_exc(exc, "PySmiFileNotFoundError"))',
            'observes_only': 'same(fs("fs_files"), F0)',
        },
        raises={'PySmiSearcherError': 'not truthy(rebuild)'},
    ),
    Contract(
        id='searcher.PyFileSearcher.fileExists', file='pysmi/searcher/pyfile.py', func='PyFileSearcher.fileExists',
        serves=['C10'],
        params={'self': Obj('PyFileSearcher', _path=Str), 'mibname': Str, 'mtime': Int, 'rebuild': Any},
        setup=fs_setup, inline=['decode'],
        let={'MAGIC': "b'\\xcb\\r\\r\\n'", 'F0': 'fs("fs_files")',
             # a byte-code file counts when it holds the 8 header bytes read and starts with the magic number
             'pyc_valid': 'isfile(%s + ".pyc") and len(file_at(%s + ".pyc")) >= 8 and '
                          'same(file_at(%s + ".pyc")[:8][:4], MAGIC)' % (BASE, BASE, BASE),
             'pyc_fresh': 'pyc_time(file_at(%s + ".pyc")[:8][4:][:4]) >= mtime' % BASE,
             'py_fresh': 'isfile(%s + ".py") and mtime_of(%s + ".py") >= mtime' % (BASE, BASE)},
        ensures={
            'rebuild_overrides_age': 'implies(truthy(rebuild), not raised)',
            'always_answers_by_exception': 'implies(not truthy(rebuild), raised)',
            # the statement: up to date exactly when a transformed file (byte code or source) for that name is not older
            'fresh_iff_not_modified': 'implies(not truthy(rebuild) and fs("fs_faults") == 0, '
                                      'iff((pyc_valid and pyc_fresh) or py_fresh, is_exc(exc, "PySmiFileNotModifiedError")))',
            'observes_only': 'same(fs("fs_files"), F0)',
        },
        raises={'PySmiSearcherError': 'not truthy(rebuild)'},
    ),
    Contract(
        id='searcher.StubSearcher.fileExists', file='pysmi/searcher/stub.py', func='StubSearcher.fileExists',
        serves=['C10'],
        params={'self': Obj('StubSearcher', _mibnames=TupOf(Str)), 'mibname': Str, 'mtime': Int, 'rebuild': Any},
        ensures={
            'stub_list_is_decisive': 'iff(mibname in self._mibnames, is_exc(exc, "PySmiFileNotModifiedError"))',
            'rebuild_does_not_override_stubs': 'raised',
            'else_not_found': 'implies(mibname not in self._mibnames, is_exc(exc, "PySmiFileNotFoundError"))',
        },
        raises={'PySmiSearcherError': True},
    ),
]
