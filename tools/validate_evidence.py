#!/usr/bin/env python3
"""validates every evidence/*.json against /root/.vp/EVIDENCE.schema.json and MANIFEST.json against its schema (python3-vt)"""
import glob, json, sys, jsonschema
sch = json.load(open('/root/.vp/EVIDENCE.schema.json'))
bad = 0
for f in sorted(glob.glob('/verif/evidence/*.json')):
    try:
        jsonschema.validate(json.load(open(f)), sch)
    except Exception as e:
        bad += 1
        print(f, 'INVALID', str(e)[:300])
m = json.load(open('/verif/MANIFEST.json'))
jsonschema.validate(m, json.load(open('/root/.vp/MANIFEST.schema.json')))
lv = {c['property_id']: c['level_claimed']['category'] for c in m['checks']}
for f in sorted(glob.glob('/verif/evidence/*.json')):
    e = json.load(open(f))
    if lv.get(e['property_id']) != e['level']:
        print(f, 'level', e['level'], 'manifest', lv.get(e['property_id']))
print('validated', 'with %d problems' % bad)
sys.exit(1 if bad else 0)
