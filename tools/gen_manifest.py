#!/usr/bin/env python3
"""Regenerates MANIFEST.json from the table below (single source of truth for claims)."""
import json, os
HERE = os.path.dirname(os.path.dirname(os.path.abspath(__file__)))

TECH = 'contract-based deductive verification: VCs generated from the real AST by pyvc, discharged by z3/cvc5'

CLAIMS = {
    # pid: (category, text, level_note, design_ref)
    'C05': ('proof',
            'Every function between the MIB text and the emitted SYNTAX/DEFVAL data (token classification, literal '
            'conversion, range/enum/bits handlers, base-type walk, DEFVAL formatting) carries a contract whose '
            'postconditions restate the property; all obligations are discharged by z3/cvc5 for all inputs.',
            'Trusted: CPython int()/int(s, base)/str(); PLY driver; the pysnmp template rendering of constraints and '
            'defaults is a Jinja2 program and is not decided.', '5 C05'),
}

COMPILE_NOTE = ('Trusted: the component protocol contracts (pyvc/models/components.py) for user callbacks, network '
                'readers and PyPackageSearcher; distinct component objects; debug logging off; keys of the status maps are '
                'str.  The parsed-xor-failed bookkeeping clauses are proved for histories in which every fetched file holds '
                'exactly one module named like the request (open known finding D21 otherwise, printed as KNOWN-FINDING); '
                'exception freedom, status values, write-once, payload identity, the failure gate, import closure, '
                'fetch-once, source order and the termination step are proved for all histories.')
CLAIMS.update({
    'C07': ('proof',
            'MibCompiler.compile is symbolically executed once against adversarial protocol contracts of all seven '
            'component kinds, with symbolic maps and component lists of any size and an inductive invariant for each of '
            'its twelve loops; no_escape, status_values, write_once, status_iff_written, payload identity are '
            'postconditions discharged by z3 for every import graph and every assignment of outcomes.',
            COMPILE_NOTE, '5 C07-C10,C19'),
    'C09': ('proof',
            'The failure gate and the store loop of compile carry assertions: at the gate return nothing was handed to '
            'the writer and every built module is unprocessed; the store loop is entered only without outstanding '
            'failures or with ignoreErrors, and then every built module is handed over exactly once.',
            COMPILE_NOTE, '5 C07-C10,C19'),
})
CLAIMS['C08'] = ('proof',
    'The discovery loops of compile() carry inductive invariants for all import graphs and all outcome assignments: '
    'closure (every import of a parsed module and every requested name is parsed, failed, looked up or still queued; '
    'at return every one has a status or was resolved to modules that have one), fetch-once (a name is looked up at '
    'most once, a look-up asks every source at most once), source order (the n-th request of a look-up goes to '
    'self._sources[n]; the next source is asked only after not-found or a failed text; missing only after all sources; '
    'the parser gets the text the source returned) and termination (step clause: an iteration shortens the work list or '
    'looks up a new name of the finite universe; cvc5 finite-set cardinality lemma closes the lexicographic argument). '
    'SymtableCodeGen.genImports is verified to report every module of the IMPORTS clause in MibInfo.imported.',
    COMPILE_NOTE + ' Termination assumes a finite universe U of module names the sources can mention (ghost set; the '
    'symbol-table model promises imports lie in U) - with infinitely many distinct names no work-list algorithm '
    'terminates. Inner for-loops iterate over sequences their bodies do not modify.', '5 C07-C10,C19')
CLAIMS['C12'] = ('other',
    'No-hidden-state and no-hash-seed obligations on the real functions: SmiV2Parser.parse resets the lexer on every exit '
    '(normal and exceptional) and SmiV2Lexer.reset builds a fresh lexer object; both genCode functions are executed with '
    'every per-module field unconstrained on entry and the invariant at the head of the declaration loop says each one '
    'was re-initialised before it is read (_out, _oids, _rows, _cols, _importMap, _seenSyms, _postponedSyms, _parentOids, '
    '_symsOrder, _moduleRevision, _moduleIdentityOid, _enterpriseOid, _complianceOids, fakeidx) and that the summary '
    'collections handed out are fresh objects; loops whose effect depends on the visiting order (symbol lists of the '
    'imports record, the unknown-parent check) are proved to iterate a sorted sequence, not a set; getBaseType leaves '
    'the symbol table unchanged. Found and fixed by these obligations: D1, D5, D5b, D6, D17, D22, D34.',
    'Not decided (argued only, hence level other): that re-running genImports on the tree it already rewrote in place '
    'yields the same result; that the order in which SymtableCodeGen.genImports visits a set cannot be observed (it only '
    'fills a dict whose values do not depend on it); MibCompiler.compile keeps no state on the instance (it assigns '
    'locals only - not stated as a frame obligation); scripts/mibcopy.py. Set iteration is taken to be the only '
    'hash-dependent behaviour of CPython (dict order is insertion order). Trusted: PLY lexer object construction.', '5 C12')
CLAIMS['C16'] = ('other',
    'Three layers. (1) Contracts on the real functions, discharged for all inputs: both genImports for EVERY conversion '
    'table of the shipped shape (module names only added, constant base modules added, result sorted and duplicate-free, '
    'no exception other than the undecided list.remove), symTrans, SymtableCodeGen.genSimpleSyntax (SMIv2 class name, '
    'module looked up under the translated name), both genTrapType (<enterprise>.0.<n>, class notificationtype, variables '
    'in order), the MAX-ACCESS / ACCESS and TRAP-TYPE grammar actions. (2) Table lemmas decided by exhaustive enumeration '
    'of the data of the real classes: the shipped table has the shape the contracts quantify over, every target is '
    'exported by the SMIv2 module it names and every RFC 1213 system/snmp-group object of the installed SNMPv2-MIB is '
    'mapped to it (ground truth: the SMI modules shipped with the installed pysnmp), Counter/Gauge/NetworkAddress/INTEGER '
    'keywords and type tables. (3) BOUNDED, not proved: that the rewriting removes each converted symbol and adds each '
    'target - the real functions are run on two import clauses per table entry (496 runs, exhaustive over the 248 entries, '
    'not over clauses).',
    'Trusted: the SMIv2 modules shipped with the installed pysnmp as ground truth (IF-MIB, IP-MIB, TCP-MIB, UDP-MIB are '
    'not shipped: targets in them are not checked); PLY; the pysnmp template. Not decided: the pairing lemma "trees that '
    'differ only by the transliteration give equal records" is not stated as one obligation - it is the conjunction of the '
    'per-function contracts. D35 (RFC1158-MIB table) found by a table lemma and fixed.', '5 C16')
CLAIMS['C14'] = ('other',
    'Proved for all inputs: AbstractReader.getMibVariants, executed for every setting of the four matching flags with a '
    'symbolic module name and symbolic extensions - every offered file name is an alias plus a requested extension, every '
    'alias is one of the documented variants (as given, upper, lower, -MIB suffixed, or a prefix of one of them under fuzzy '
    'matching), the name as given comes first, nothing else is offered when matching is off, no exception (D37 found and '
    'fixed); FileReader.getMibVariants - an .index entry is the only variant. BOUNDED, not proved (zipfile, os and urlparse '
    'are outside the verifier): the real ZipReader on every archive of a small scope nested to depth 3 (a member named like '
    'a variant is found at any depth, returned text and mtime are that member\'s, nothing unrelated is returned; D36 found '
    'and fixed), the real FileReader on small directory trees with sub-directories, same-named directories and .index '
    'files, getReadersFromUrls on 8 schemes x 5 path shapes.',
    'Trusted: zipfile, os, urlparse, str.upper/lower (uninterpreted in the proof). Not decided: network readers; the '
    'order in which sub-directories are visited (os.listdir order) - the bounded clauses accept any file named like a '
    'variant; D9 (the fuzzy rule cuts at the first -mib, not at a trailing one) is within what the alias clause allows. '
    'Outside the bounded scopes nothing is claimed.', '5 C14')
CLAIMS['C20'] = ('other',
    'mibdump: the region of the script from the try: that configures and runs the compiler to the final sys.exit is '
    'executed symbolically as it stands (module-level statements wrapped in a synthetic function, nothing rewritten), with '
    'compile() and buildIndex() replaced by their verified contracts: the script always leaves through sys.exit, the exit '
    'status is 0 iff no module of the result is missing or failed (79 otherwise, 70 for a library error), every option '
    'reaches compile() unchanged. The files left in the destination are decided by the writer contracts (C13: no '
    'temporary file survives, old-or-new content) together with compile()\'s status_iff_written (C07). mibcopy: BOUNDED, '
    'not proved - the real script is run on every scenario of a small scope (2-3 files of one module with different, equal '
    'or no revisions, every order of the source arguments, destination empty or stocked, with and without a --mib-source '
    'repository) and the destination must hold the copy with the latest revision under the module name.',
    'Not decided: the text of the verbose report lines (filter comprehensions over the same status comparisons as the '
    'exit status); option parsing (getopt) and usage errors (exit 64); the process boundary. The composition '
    '"destination holds exactly the modules reported created or borrowed" is the conjunction of C07 status_iff_written '
    'and the C13 writer postconditions - not stated as one machine-checked lemma. Trusted: getopt, sys.exit, shutil.copy, '
    'os.walk; getReadersFromUrls through its bounded stand-in (C14).', '5 C20')
CLAIMS['C13'] = ('proof',
    'FileWriter.putData, PyFileWriter.putData and CallbackWriter.putData are executed symbolically against an OS model '
    'in which every system call may fail (and os.write may fall short) adversarially; atomicity, temp-file cleanup, '
    'error type, success-means-stored, frame and dry-run clauses are postconditions over the ghost file system, '
    'discharged for every fault placement with a budget of one fault.',
    'Trusted: the OS model (POSIX rename atomicity, mkstemp uniqueness, OSError without effect); compat.encode/decode '
    'inlined; concurrent writers of the same module are not decided (no concurrency in the engine); the forwarding of '
    'dryRun/writeMibs by compile() is proved under C07/C09.', '5 C13')
CLAIMS['C10'] = ('proof',
    'The three searchers carry exact contracts over a ghost file system (fresh-iff-not-modified incl. the >= boundary, '
    'rebuild overrides age but not stub lists, observers only); compile() is proved to forward rebuild to every '
    'fileExists call, to report untouched modules as neither generated nor written, to delete fresh modules from '
    'the work set, and - noDeps - to keep exactly the modules obtained for explicitly requested names (a requested module '
    'is reported untouched only because a searcher said so; code is generated for requested modules only; D23 fixed).', COMPILE_NOTE + ' Byte-code header layout (bytes 4-8 hold the time stamp) is as the code reads it; '
    'PyPackageSearcher is not under contract (imports packages). Searcher order and the noDeps filter are decided by the '
    'loop structure and invariants of compile(); known finding D18 (stale .pyc masks a fresh .py).', '5 C10')
CLAIMS['C19'] = ('proof',
    'AbstractBorrower.getData is verified for all option shapes (flavour mismatch -> not-found without touching the '
    'reader, extensions and flavour forwarded, payload handed on verbatim); compile() is proved to consult borrowers '
    'only for names without generated code, to forward genTexts, to write the borrowed payload verbatim, to keep a '
    'compiled module from being replaced, and to offer every explicitly requested name that stays failed to every '
    'borrower also under noDeps (D24 fixed).', COMPILE_NOTE, '5 C19')
CLAIMS['C02'] = ('other',
    'Every grammar action of SmiV2Parser and of the nine relaxation classes is verified, alternative by alternative, '
    'against an expected tree written over the right-hand-side symbols by name and against the value type of its '
    'left-hand side (rely/guarantee over the parse tree); token rules are verified against their regular expressions. '
    'This proves the pysmi code the statement depends on; that PLY builds and drives correct LALR tables is trusted, '
    'hence level other.',
    'Trusted: PLY (lexer rule order, yacc driver), re; the value type of importPart (dict merge loop) is assumed. '
    'Productions that by design have no tree representation are listed in NOT_REPRESENTED (contract: value None).',
    '5 C02')
HANDLER_NOTE = ('Trusted: CPython str/int/replace/split/join (uninterpreted with the facts listed in the evidence), '
                'the PLY driver, Jinja2 rendering of the JSON template (tojson). The dynamic dispatch prepData -> handler '
                '(handlersTable[tag]) is not under a machine-checked composition lemma: handler preconditions restate the '
                'value types of the grammar contracts (C02) by hand. Symbolically indexed dicts are unordered in the engine, so '
                'member order inside a record is not decided.')
CLAIMS['C01'] = ('proof',
    'The OID chain is a composition of contracts: grammar actions keep sub-identifiers as written (C02 contracts), '
    'SymtableCodeGen.genOid / regSym / regPostponedSyms (saturation: no postponed symbol is ready, hence independence of '
    'declaration order), IntermediateCodeGen.genNumericOid proved equal to the specification function Resolve (defining '
    'equations: number, iso, (name, module) -> resolved OID of that symbol) for tables and OIDs of any size, genOid '
    '(symbolic form elementwise, dotted rendering of Resolve), the eleven clause handlers (oid member), genTrapType '
    '(<enterprise>.0.<n>), regSym (module OID summary).',
    HANDLER_NOTE + ' Termination of genNumericOid on cyclic tables is not decided (partial correctness; finding D12).', '5 C01')
CLAIMS['C03'] = ('proof',
    'Each of the eleven clause handlers of IntermediateCodeGen has a contract: the record is registered under the '
    'translated name, carries class / oid / exactly the optional members that are declared (and requested, for texts), '
    'leaves every other record untouched; regSym rejects duplicates; symbol-table registration accounts for every '
    'declaration (registered or postponed, never lost).', HANDLER_NOTE, '5 C03')
CLAIMS['C06'] = ('proof',
    'Grammar actions for index / objects / compliance lists (order preserving list contracts, D14 fixed), '
    'genObjectType (nodetype classification, indices, augmention), genTableIndex (order, IMPLIED flag, module), '
    'genObjects and the notification / group / trap handlers (same length, same order, import-map attribution), '
    'genCompliances (concatenation over MODULE parts via the specification function FLAT).',
    HANDLER_NOTE + ' Known finding D16 (hyphenated imported index attributed to the local module).', '5 C06')
CLAIMS['C15'] = ('other',
    'p_Text strips exactly the quotes; every text handler returns textFilter(kind, source) exactly once; every clause '
    'handler emits description / reference / organization / contact-info iff text generation is on and the source text is '
    'non-empty, and emits them unchanged. The pysnmp clause (string literals produced by the Jinja2 template) is not decided, '
    'hence level other.', HANDLER_NOTE + ' Known finding D26 (DISPLAY-HINT and PRODUCT-RELEASE bypass the filter).', '5 C15')
CLAIMS['C11'] = ('other',
    'Every token rule is verified against its own regular expression: error rules raise the package error with the '
    'token line, line accounting (lineno delta = number of line terminators of the lexeme, for every lexeme of the rule), '
    'state switches; p_error raises for a token and for end of input; parse() lets only lexer/parser errors through and '
    'resets the lexer on every exit; class invariant: every lexer state has an error rule or total rules, no rule accepts '
    'the empty string. "For any input text" reduces to PLY driving these rules, which is trusted, hence level other.',
    'Trusted: PLY lexer/yacc drivers, re (the z3 translation of the token regexes agrees with re on the subset used), '
    're.findall line-terminator count.', '5 C11')
CLAIMS['C17'] = ('other',
    'Lockstep lemma over the LR tables PLY builds from the real parser classes: for a pair of option sets S <= L, '
    'the set of reachable state pairs is closed and every pair agrees on shift / matching reduce / accept for every '
    'look-ahead of S (weak simulation with the silent reductions the relaxations introduce), so every token sequence '
    'of any length accepted under S is accepted under L with matching reductions; matched reductions are the same '
    'function or have the same expected tree, which the grammar-action contracts prove of each function; the lexers '
    'share their rule functions and classify every word alike except those L newly reserves; parserFactory / '
    'lexerFactory are verified on every subset of the nine options (members = those of the documented relaxation '
    'classes, unknown option asked for -> PySmiError). The lemma is a table computation (decided exactly, not by '
    'the SMT solver) and PLY is trusted to run the tables, hence level other.',
    'quick: the three shipped dialects, every buildable single option against SMIv2 and against smiV1Relaxed, six '
    'seeded random subset pairs; thorough: every buildable subset against each one-option extension (all superset '
    'pairs follow by transitivity). Option sets from which PLY cannot build a parser (supportIndex without '
    'supportSmiV1Keywords) are outside the quantifier and reported as skipped. Trusted: PLY table construction and '
    'LR driver (the tables are read from the parser object it built).', '5 C17')
CLAIMS['C18'] = ('exploration',
    'BOUNDED, not proved: JsonCodeGen.genIndex is outside the verifier\'s reach (closures, for/else, sorted(key=), '
    'aliasing of nested dict-of-list values, json), so a bounded stand-in decides it: every scenario of a stated '
    'small scope (3 modules, OID sets of up to 2/3 OIDs from a universe with digit-sharing siblings and nested '
    'subtrees, 1-3 incremental builds) is executed on the real function and the clauses of the property (identity / '
    'enterprise / compliance entries, component-wise cover naming the module, only-own listing, monotone rebuild, '
    're-indexing changes nothing) are evaluated on the result. Discharged for all inputs (fresh build): the four '
    'sections stay dicts of lists through the collection loops, the compacted oids section keeps only entries of the full '
    'section with their module lists, and every OID of the full section has a component-wise prefix entry in it; that the '
    'entry also names every module of the OID (superset test) is left to the bounded part - the solvers do not carry '
    'the element-set reasoning under the existential. MibCompiler.buildIndex, which feeds it, is under a '
    'discharged contract (old index forwarded, result stored under the index name, dryRun, error handling).',
    'Scope: quick 8.6k scenarios, thorough 0.8M scenarios in 16 shards; outside the scope nothing is claimed. '
    'D7 (string prefix) and D33 (order-dependent reduction) were found by this check and fixed.', '5 C18')
NOT_YET = {
}
TECHNIQUE = {
    'C18': 'bounded stand-in (exhaustive small-scope enumeration on the real genIndex, labelled bounded, not a proof) + '
           'contract-based deductive verification of MibCompiler.buildIndex (pyvc VCs, z3/cvc5)',
    'C14': 'contract-based deductive verification of getMibVariants (pyvc VCs, z3/cvc5) + bounded stand-ins (small-scope '
           'enumeration on the real ZipReader, FileReader, getReadersFromUrls)',
    'C16': 'contract-based deductive verification (pyvc VCs, z3/cvc5) of genImports / symTrans / genSimpleSyntax / '
           'genTrapType + exhaustive table lemmas over the real conversion data + bounded stand-in for the rewriting',
    'C20': 'contract-based deductive verification of the mibdump script region and the writers (pyvc VCs, z3/cvc5) + '
           'bounded stand-in for mibcopy (the real script on a small scope of scenarios)',
    'C17': 'lockstep lemma over the real LR tables (exact table computation) + contract-based deductive verification of '
           'the factories and grammar actions (pyvc VCs, z3/cvc5)',
    'C08': 'contract-based deductive verification (pyvc VCs from the real AST, z3/cvc5; loop invariants, step clauses, '
           'cvc5 finite-set cardinality lemma for termination)',
}

NOT_APPLICABLE = {
    'C04': 'The mechanism is the Jinja2 template templates/pysnmp/*.j2 (a different language): no contract on a '
           'Python function of /repo can state that the rendered text is a loadable module exporting X. '
           'See DESIGN.md section 6.',
}

def main():
    props = [json.loads(l) for l in open(os.path.join(HERE, 'properties.jsonl'))]
    checks = []
    na = []
    for p in props:
        pid = p['id']
        if pid in CLAIMS:
            cat, text, note, ref = CLAIMS[pid]
            checks.append({
                'property_id': pid,
                'quick_cmd': './check %s --tier quick' % pid,
                'thorough_cmd': './check %s --tier thorough' % pid,
                'evidence_file': 'evidence/%s.json' % pid,
                'replay_cmd_template': './check %s --replay {path}' % pid,
                'engine': 'pyvc',
                'level_claimed': {'category': cat, 'text': text, 'design_ref': 'DESIGN.md section ' + ref},
                'level_note': note,
                'technique': TECHNIQUE.get(pid, TECH),
            })
        elif pid in NOT_APPLICABLE:
            na.append({'property_id': pid, 'reason': NOT_APPLICABLE[pid]})
        else:
            na.append({'property_id': pid, 'reason': NOT_YET.get(pid, 'contracts for this property are not built yet '
                       '(work in progress; the technique applies, see DESIGN.md section 5)')})
    m = {
        'version': 1,
        'setup_cmd': './check --selfcheck',
        'hooks': {'guard': 'PYSMI_VERIF', 'enable': 'no hooks: contracts are sidecar files, /repo is read as text '
                  '(PYSMI_VERIF is reserved and unused)',
                  'baseline_off_cmd': 'cd /repo && /venv/bin/python -m pytest -ra -q -p no:cacheprovider --timeout=900 '
                                      '--continue-on-collection-errors',
                  'source_commits': [], 'add_only': True},
        'engines': [{'name': 'pyvc', 'path': 'pyvc/', 'serves_properties': sorted(CLAIMS),
                     'kind_free_text': 'AST-to-z3 verification condition generator / symbolic executor for a Python '
                                       'subset with sidecar contracts; z3 5.1 primary, cvc5 second opinion'}],
        'checks': checks,
        'not_applicable': na,
        'notes': 'Exit codes of ./check: 0 held, 1 violation (VIOLATION line), 2 undecided, 3 checker error. '
                 'VERIF_REPO selects the tree (default /repo).',
    }
    with open(os.path.join(HERE, 'MANIFEST.json'), 'w') as f:
        json.dump(m, f, indent=1)
    print('MANIFEST.json: %d checks, %d not_applicable' % (len(checks), len(na)))

if __name__ == '__main__':
    main()
