#!/bin/sh
# tools/sweep_seeds.sh [Cxx ...] : applies every stored seeded change (seeded/<Cxx>-<n>/patch.diff) to a scratch copy of /repo,
# runs that property's quick check on it and prints one line per seed: CAUGHT (first violated obligation) / UNDECIDED / MISSED.
# A seed whose patch no longer applies to the current /repo (because a later fix: commit touched the same lines) is reported
# as STALE.  Scratch copies live under /dev/shm and are removed.
cd "$(dirname "$0")/.." || exit 3
sel="$*"
for d in seeded/C*-*/; do
  id=$(basename "$d"); p=${id%-*}
  if [ -n "$sel" ] && ! echo " $sel " | grep -q " $p "; then continue; fi
  S=/dev/shm/pysmi-sweep.$$
  rm -rf $S && rsync -a --exclude .git /repo/ $S/ || exit 3
  if ! (cd $S && patch -p1 -s < "$OLDPWD/$d/patch.diff" >/dev/null 2>&1); then echo "$id STALE (patch does not apply to the current tree)"; rm -rf $S; continue; fi
  out=$(VERIF_EVIDENCE_DIR=/dev/shm/sweep-evidence VERIF_REPO=$S ./check $p 2>&1); rc=$?
  v=$(echo "$out" | grep '^VIOLATION' | head -1 | sed 's/.*obligation=//')
  if [ -n "$v" ]; then echo "$id CAUGHT exit=$rc $v"
  elif [ $rc -eq 2 ]; then echo "$id UNDECIDED exit=$rc $(echo "$out" | grep '^UNDECIDED' | head -1 | cut -c1-160)"
  else echo "$id MISSED exit=$rc"; fi
  rm -rf $S
done
