#!/bin/sh
# tools/try_seed.sh <patch.diff> <Cxx> [more Cxx...] : apply a seeded change to a scratch copy, run the checks on it
patch="$1"; shift
S=/dev/shm/pysmi-seed.$$
rm -rf $S && rsync -a --exclude .git /repo/ $S/ || exit 3
(cd $S && patch -p1 -s < "$patch") || { echo "PATCH DOES NOT APPLY"; rm -rf $S; exit 3; }
for p in "$@"; do
  VERIF_EVIDENCE_DIR=/dev/shm/seed-evidence VERIF_REPO=$S /verif/check $p 2>&1 | grep -E "^VIOLATION|^UNDECIDED|^CHECKER|^C[0-9]+ \[" 
  echo "  -> $p exit=$?"
done
rm -rf $S
