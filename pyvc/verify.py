"""Verification of one function against its contract: VC generation + discharge."""
import ast
import os
import time
import z3
from . import pv
from .pv import Unsupported, snapshot, lift
from .explore import explore, SolverCache, PathEnd
from .extract import SourceFile
from .interp import Interp, Env, PyRaise, ReturnSig, UNBOUND
from .contract import build, parse_expr
from .apply import spec_eval, spec_bool, take_old


class FunctionReport:
    def __init__(self, c):
        self.contract = c
        self.id = c.id
        self.file, self.func = c.file, c.func
        self.src_hash = None
        self.line = None
        self.paths = 0
        self.obligations = []       # Obligation
        self.results = []           # (Obligation, verdict, backend, seconds, model)
        self.notes = []
        self.unsupported = []
        self.covers = set()
        self.vacuous = False
        self.error = None
        self.wall = 0.0
        self.inputs = None          # symbolic inputs of the last run (for concretisation)


def _region(src, c):
    """'@region <anchor>': the module-level statements of a script from the first statement whose source text starts
    with <anchor> to the end of the file, wrapped in a synthetic function whose parameters are the names the contract
    gives shapes for (the free names of the region).  Nothing inside the region is dropped or rewritten."""
    anchor = c.func[len('@region '):]
    body = src.tree.body
    for i, st in enumerate(body):
        seg = ast.get_source_segment(src.text, st) or ''
        if seg.startswith(anchor):
            stmts = body[i:]
            fn = ast.FunctionDef(
                name='__region__',
                args=ast.arguments(posonlyargs=[], args=[ast.arg(arg=p) for p in c.params], vararg=None,
                                   kwonlyargs=[], kw_defaults=[], kwarg=None, defaults=[]),
                body=stmts, decorator_list=[], returns=None, type_comment=None)
            fn.lineno, fn.col_offset = st.lineno, 0
            fn.end_lineno, fn.end_col_offset = stmts[-1].end_lineno, stmts[-1].end_col_offset
            fn._region_text = '\n'.join(ast.get_source_segment(src.text, x) or '' for x in stmts)
            return fn
    return None


def locate(world, c):
    src = SourceFile.get(c.file)
    node = _region(src, c) if c.func.startswith('@region ') else src.find(c.func)
    if node is None:
        raise Unsupported('function %s not found in %s' % (c.func, c.file))
    return src, node


def verify_contract(world, c, cache=None, max_paths=4000, limits=None):
    rep = FunctionReport(c)
    t0 = time.time()
    pv.STR_SUBCLASS_EQ = 'str_subclass_equality' in c.notes
    try:
        src, node = locate(world, c)
    except (Unsupported, OSError) as e:
        rep.unsupported.append(str(e))
        return rep
    import hashlib
    rep.src_hash = (hashlib.sha256(node._region_text.encode()).hexdigest()[:16] if hasattr(node, '_region_text')
                    else src.hash_of(node))
    rep.line = node.lineno
    modns = world.module_for_file(c.file)
    cache = cache or SolverCache()
    keep = {}

    def run(ctx):
        if limits:
            ctx.limits.update(limits)
        it = Interp(world, ctx, c)
        it.fn_node = node
        # enclosing function environment for nested defs: parameters only
        env = Env(module=modns)
        env.func = node
        inputs = {}
        for name, sh in c.params.items():
            v = build(sh, it, name)
            env.set(name, v)
            inputs[name] = v
        # parameters with defaults that the contract does not mention
        a = node.args
        allp = [p.arg for p in a.posonlyargs + a.args]
        nd = len(a.defaults)
        for i, p in enumerate(allp):
            if p not in c.params:
                if i >= len(allp) - nd:
                    env.set(p, it.eval(a.defaults[i - (len(allp) - nd)], env))
                else:
                    raise Unsupported('contract %s gives no shape for parameter %s' % (c.id, p))
        for g, sh in c.ghost.items():
            ctx.ghost[g] = build(sh, it, 'g_' + g)
        if c.setup is not None:
            c.setup(it, env)
            for name in list(c.params) + ['__names__']:
                if env.has(name):
                    inputs[name] = env.lookup(name)
        for name, ex in c.defs.items():
            f = spec_eval(it, ex, env)
            f.nested = True
            env.set(name, f)
        for name, ex in c.let.items():
            env.set(name, spec_eval(it, ex, env))
        if c.known:
            def hook(name, c=c, it=it, env=env):
                for key, pred in c.known.items():
                    if name == key or name.startswith(key):
                        return spec_bool(it, pred, env)
                return None
            ctx.known_hook = hook
        for r in c.axioms:
            ctx.assume(spec_bool(it, r, env))
        for r in c.requires:
            ctx.assume(spec_bool(it, r, env))
        if not ctx.feasible():
            raise PathEnd()
        ctx.cover('entry')
        keep['inputs'] = inputs
        keep['entry_snapshot'] = {k: snapshot(v) for k, v in inputs.items()}
        clauses = list(c.ensures.values()) + [v for v in c.raises.values() if isinstance(v, str)]
        it.old_store = take_old(it, clauses, env)
        result, raised, exc, eline = None, False, None, None
        try:
            it.exec_block(node.body, env)
        except ReturnSig as r:
            result = r.value
        except PyRaise as pr:
            raised, exc, eline = True, pr.exc, pr.line
        env.set('result', result)
        env.set('raised', raised)
        env.set('exc', exc)
        if raised:
            ctx.cover('raises:' + exc.cls)
            goals = []
            for ename, cond in c.raises.items():
                if it.obj_isa(exc, ename):
                    goals.append(z3.BoolVal(True) if cond is True or cond is None else spec_bool(it, cond, env))
            goal = z3.Or(*goals) if goals else z3.BoolVal(False)
            ctx.oblige('%s.raises' % c.id, goal, eline, 'raises',
                       info={'exception': exc.cls, 'line': eline, 'allowed': sorted(c.raises)})
        else:
            ctx.cover('returns')
        for name, ex in c.ensures.items():
            ctx.oblige('%s.%s' % (c.id, name), spec_bool(it, ex, env), node.lineno, 'ensures', info={'clause': ex})
        return ('raise', exc.cls) if raised else ('return',)

    try:
        res = explore(run, cache, max_paths=max_paths)
    except Unsupported as e:
        rep.unsupported.append(str(e))
        rep.wall = time.time() - t0
        return rep
    rep.paths = res.paths
    rep.obligations = res.obligations
    rep.notes = res.notes
    rep.unsupported = res.unsupported
    if res.budget:
        rep.unsupported.append(res.budget)
    rep.covers = res.covers
    rep.vacuous = 'entry' not in res.covers
    rep.inputs = keep.get('entry_snapshot')
    rep.wall = time.time() - t0
    return rep


# --------------------------------------------------------------------------
# discharge

def check_obligation(ob, timeout_ms=10000):
    """-> (verdict, backend, seconds, model)
    verdict: discharged | refuted (model of the exact formula) | candidate (model of the instantiated,
    weaker formula: needs confirmation by replay) | unknown"""
    from .explore import has_quantifier
    t0 = time.time()
    g = z3.simplify(ob.goal)
    if z3.is_true(g):
        return 'discharged', 'simplifier', time.time() - t0, None
    if any(h.eq(ob.goal) for h in ob.hyps):
        return 'discharged', 'syntactic (goal is a hypothesis)', time.time() - t0, None
    quant = has_quantifier(ob.goal) or any(has_quantifier(h) for h in ob.hyps)
    # the negated goal is literally one of the hypotheses (or the goal is False): nothing to prove from; the
    # obligation fails on this path unless the path itself is infeasible - decided below with the cheap parts only
    ng = z3.simplify(z3.Not(ob.goal))
    literal_clash = z3.is_false(g) or any(h.eq(ng) or z3.simplify(h).eq(ng) for h in ob.hyps)
    # stage 0: growing subsets of the hypotheses (none, those sharing a constant with the goal, the cone of
    # influence).  Fewer hypotheses can only make the query harder to refute: unsat here is a proof.
    if len(ob.hyps) > 4:
        gs = const_symbols(ob.goal)
        direct = [h for h in ob.hyps if const_symbols(h) & gs]
        tried = set()
        for label, hs, ms in (('goal-only', [], 700), ('direct', direct, 2000),
                              ('coi', cone_of_influence(ob.hyps, ob.goal), 3000)):
            if len(hs) >= len(ob.hyps) or len(hs) in tried:
                continue
            tried.add(len(hs))
            s0 = z3.Solver()
            s0.set('timeout', min(timeout_ms, ms))
            for h in hs:
                s0.add(h)
            s0.add(z3.Not(ob.goal))
            if s0.check() == z3.unsat:
                return 'discharged', 'z3(%s)' % label, time.time() - t0, None
    s = z3.Solver()
    s.set('timeout', timeout_ms)
    for h in ob.hyps:
        s.add(h)
    s.add(z3.Not(ob.goal))
    r = s.check()
    dt = time.time() - t0
    if r == z3.unsat:
        return 'discharged', 'z3', dt, None
    if r == z3.sat:
        return refine(ob, s, dt, timeout_ms)
    cand = None
    if quant:
        from .inst import inst_check
        r1, model, dt1 = inst_check(ob.hyps, ob.goal, timeout_ms)
        dt += dt1
        if r1 == 'unsat':
            return 'discharged', 'z3+instantiation', dt, None
        if r1 == 'sat':
            cand = model
    # second opinion: cvc5 on the SMT-LIB text of the exact formula
    from .cvc5_backend import cvc5_check
    r2, dt2 = cvc5_check(s.to_smt2(), min(timeout_ms, 10000) if cand is not None else timeout_ms)
    if r2 == 'unsat':
        return 'discharged', 'cvc5', dt + dt2, None
    if r2 == 'sat':
        return 'refuted', 'cvc5', dt + dt2, cand
    if cand is not None:
        return 'candidate', 'z3+instantiation', dt + dt2, cand
    if quant:
        # last resort for a counter-model: the quantifier-free part of the hypotheses only (weaker hypotheses: a
        # model is only a candidate, to be confirmed by replay)
        from .explore import weaken
        s3 = z3.Solver()
        s3.set('timeout', min(timeout_ms, 5000))
        for h in ob.hyps:
            w = weaken(h, True) if has_quantifier(h) else h
            s3.add(w)
        s3.add(weaken(z3.Not(ob.goal), True) if has_quantifier(ob.goal) else z3.Not(ob.goal))
        if s3.check() == z3.sat:
            return 'candidate', 'z3 on the quantifier-free part', dt + dt2, s3.model()
    if literal_clash:
        return 'candidate', 'goal contradicts a hypothesis of a path the solvers could not show infeasible', dt + dt2, None
    return 'unknown', 'z3+cvc5:' + s.reason_unknown(), dt + dt2, None


_cs_cache = {}


def const_symbols(t):
    """names of the uninterpreted constants of a term"""
    k = t.get_id()
    r = _cs_cache.get(k)
    if r is not None:
        return r[0]
    out = set()
    seen = set()
    stack = [t]
    while stack:
        x = stack.pop()
        i = x.get_id()
        if i in seen:
            continue
        seen.add(i)
        if z3.is_quantifier(x):
            stack.append(x.body())
        elif z3.is_app(x):
            if x.num_args() == 0 and x.decl().kind() == z3.Z3_OP_UNINTERPRETED:
                out.add(x.decl().name())
            else:
                stack.extend(x.children())
    if len(_cs_cache) > 100000:
        _cs_cache.clear()
    _cs_cache[k] = (out, t)
    return out


def cone_of_influence(hyps, goal):
    syms = set(const_symbols(goal))
    hs = [(h, const_symbols(h)) for h in hyps]
    chosen = [False] * len(hs)
    changed = True
    while changed:
        changed = False
        for i, (h, ss) in enumerate(hs):
            if not chosen[i] and (ss & syms or not ss):
                chosen[i] = True
                syms |= ss
                changed = True
    return [h for (h, _), c in zip(hs, chosen) if c]


def _apps(term, name, acc, seen):
    if term.get_id() in seen:
        return
    seen.add(term.get_id())
    if z3.is_app(term):
        if term.decl().name() == name:
            acc.append(term)
        for ch in term.children():
            _apps(ch, name, acc, seen)
    elif z3.is_quantifier(term):
        _apps(term.body(), name, acc, seen)


def refine(ob, solver, dt, timeout_ms):
    """The trusted library functions are uninterpreted in the proof.  A counter-model that relies on an
    impossible interpretation (py_int("0") == 7) is useless as a witness, so the refutation is re-solved
    with the definitional instances of py_int for the terms that occur.  unsat here means the obligation
    holds under CPython's int(); sat gives a witness that can be replayed."""
    from .pybuiltins import py_int, is_decimal
    apps = []
    seen = set()
    for t in list(ob.hyps) + [ob.goal]:
        _apps(t, 'py_int', apps, seen)
    if not apps:
        return 'refuted', 'z3', dt, solver.model()
    t0 = time.time()
    s2 = z3.Solver()
    s2.set('timeout', timeout_ms)
    s2.add(solver.assertions())
    for a in apps:
        x = a.arg(0)
        neg = z3.PrefixOf(z3.StringVal('-'), x)
        s2.add(z3.Implies(z3.And(is_decimal(x), z3.Not(neg)), a == z3.StrToInt(x)))
        s2.add(z3.Implies(z3.And(is_decimal(x), neg), a == -z3.StrToInt(z3.SubString(x, 1, z3.Length(x) - 1))))
    r = s2.check()
    dt2 = dt + time.time() - t0
    if r == z3.unsat:
        return 'discharged', 'z3+int-definition', dt2, None
    if r == z3.sat:
        return 'refuted', 'z3', dt2, s2.model()
    return 'refuted', 'z3', dt2, solver.model()


def discharge(rep, timeout_ms=10000):
    rep.results = []
    for ob in rep.obligations:
        rep.results.append((ob,) + check_obligation(ob, timeout_ms))
    return rep


_POOL_STATE = {}


def _pool_check(i):
    reps, timeout_ms = _POOL_STATE['reps'], _POOL_STATE['timeout']
    # a solver call that ignores its time limit must not run for ever: the worker is terminated by SIGALRM (default
    # action) after a generous multiple of the limit; the pool replaces it and the lost answer counts as unknown
    import signal
    signal.alarm(int(timeout_ms / 1000.0 * 8) + 120)
    ri, oi = _POOL_STATE['index'][i]
    rep = reps[ri]
    ob = rep.obligations[oi]
    try:
        verdict, backend, dt, model = check_obligation(ob, timeout_ms)
    except Exception as e:      # noqa
        signal.alarm(0)
        return i, 'unknown', 'error:%r' % (e,), 0.0, None, None
    signal.alarm(0)
    inputs = mtxt = None
    if verdict in ('refuted', 'candidate') and model is not None:
        mtxt = str(model)[:2000]
        if rep.inputs is not None:
            try:
                inputs = {k: concretize(v, model) for k, v in rep.inputs.items()}
            except Exception as e:      # noqa
                inputs = {'__error__': repr(e)}
    return i, verdict, backend, dt, inputs, mtxt


def discharge_parallel(reps, timeout_ms=10000, jobs=16):
    """Discharge all obligations of several FunctionReports in a fork pool (terms are inherited by the
    children; only verdicts and concretised inputs travel back).  Identical (hyps, goal) pairs are
    checked once.  Fills rep.summary = list of dicts (one per obligation instance)."""
    import multiprocessing as mp
    index, uniq, alias = [], {}, {}
    for ri, rep in enumerate(reps):
        rep.summary = [None] * len(rep.obligations)
        for oi, ob in enumerate(rep.obligations):
            key = (tuple(sorted(h.get_id() for h in ob.hyps)), ob.goal.get_id())
            if key in uniq:
                alias[(ri, oi)] = uniq[key]
            else:
                uniq[key] = len(index)
                alias[(ri, oi)] = len(index)
                index.append((ri, oi))
    _POOL_STATE.update(reps=reps, timeout=timeout_ms, index=index)
    n = len(index)
    if n == 0:
        return
    if jobs > 1 and n > 4:
        ctx = mp.get_context('fork')
        # a worker that dies (or a solver call that ignores its time limit) would make pool.map wait for ever: the
        # results are collected with an overall time limit, what is missing then counts as unknown (UNDECIDED, never
        # a verdict)
        budget = int(os.environ.get('VERIF_POOL_S', 0)) or (5400 if timeout_ms > 30000 else 1500)
        pool = ctx.Pool(min(jobs, n))
        try:
            pending = {i: pool.apply_async(_pool_check, (i,)) for i in range(n)}
            pool.close()
            got = {}
            deadline = time.time() + budget
            stall = timeout_ms / 1000.0 * 8 + 180       # (longer than the per-task alarm: a lost task never answers)
            last = time.time()
            while pending and time.time() < deadline and time.time() - last < stall:
                done = [i for i, r in pending.items() if r.ready()]
                for i in done:
                    r = pending.pop(i)
                    try:
                        got[i] = r.get(timeout=1)
                    except Exception as e:      # noqa
                        got[i] = (i, 'unknown', 'error:%r' % (e,), 0.0, None, None)
                    last = time.time()
                if not done:
                    time.sleep(0.2)
            for i in pending:
                got[i] = (i, 'unknown', 'error:no answer from the solver pool (time limit ignored by the solver or worker lost)',
                          0.0, None, None)
            out = [got[i] for i in range(n)]
        finally:
            pool.terminate()
    else:
        out = [_pool_check(i) for i in range(n)]
    res = {i: (v, b, dt, inp, m) for i, v, b, dt, inp, m in out}
    for ri, rep in enumerate(reps):
        for oi, ob in enumerate(rep.obligations):
            j = alias[(ri, oi)]
            v, b, dt, inp, m = res[j]
            first = index[j] == (ri, oi)
            d = {'name': ob.name, 'verdict': v, 'backend': b, 't': round(dt, 4) if first else 0.0, 'line': ob.line,
                 'kind': ob.kind, 'info': ob.info, 'path': list(ob.path or ()),
                 'labels': [[a, b] for a, b in (ob.labels or [])]}
            if inp is not None:
                d['inputs'] = inp
            if m is not None:
                d['model'] = m
            rep.summary[oi] = d


# --------------------------------------------------------------------------
# model -> python values

def term_to_py(t):
    """closed PyVal / Int / String / Bool z3 value -> python literal structure."""
    t = z3.simplify(t)
    if z3.is_int_value(t):
        return t.as_long()
    if z3.is_string_value(t):
        return t.as_string()
    if z3.is_true(t):
        return True
    if z3.is_false(t):
        return False
    if t.sort() == pv.PV and z3.is_app(t):
        d = t.decl().name()
        if d == 'PNone':
            return None
        if d == 'PAbsent':
            return '<absent>'
        if d in ('PInt', 'PStr', 'PBool'):
            return term_to_py(t.arg(0))
        if d == 'PBytes':
            return term_to_py(t.arg(0)).encode('latin-1', 'replace')
        if d == 'PSeq':
            items = seq_to_py(t.arg(1))
            return list(items) if z3.is_true(z3.simplify(t.arg(0))) else tuple(items)
        if d == 'PDict':
            keys = seq_to_py(t.arg(0))
            return {'<dict>': [repr(k) for k in keys], 'vals': str(t.arg(1))[:200]}
        if d == 'PObj':
            return {'<obj>': term_to_py(t.arg(0)), 'str': term_to_py(t.arg(1)), 'fields': str(t.arg(2))[:300]}
        if d == 'PRef':
            return '<%s#%s>' % (term_to_py(t.arg(0)), term_to_py(t.arg(1)))
        if d == 'PSet':
            return {'<set>': str(t.arg(0))[:200]}
    return '<term %s>' % str(t)[:120]


def seq_to_py(t):
    t = z3.simplify(t)
    if z3.is_app(t):
        d = t.decl().kind()
        if d == z3.Z3_OP_SEQ_EMPTY:
            return []
        if d == z3.Z3_OP_SEQ_UNIT:
            return [term_to_py(t.arg(0))]
        if d == z3.Z3_OP_SEQ_CONCAT:
            out = []
            for a in t.children():
                out.extend(seq_to_py(a))
            return out
    return ['<seq %s>' % str(t)[:80]]


def concretize(v, model):
    from .pv import SInt, SBool, SStr, SAny, VList, VDict, VSet, VObj, VSeqIter, VComp, VKeys
    ev = lambda t: model.eval(t, model_completion=True)
    if v is None or isinstance(v, (bool, int, str, bytes)):
        return v
    if isinstance(v, (SInt, SBool, SStr, SAny)):
        return term_to_py(ev(v.t))
    if isinstance(v, tuple):
        return tuple(concretize(x, model) for x in v)
    if isinstance(v, VList):
        if v.symbolic:
            return seq_to_py(ev(v.seq))
        return [concretize(x, model) for x in v.items]
    if isinstance(v, VSeqIter):
        return tuple(seq_to_py(ev(v.seq)))
    if isinstance(v, VDict):
        if v.symbolic:
            return {'<map>': str(ev(v.arr))[:400]}
        return {k: concretize(v.vals[k], model) for k in v.keys}
    if isinstance(v, VSet):
        if v.symbolic:
            return {'<set>': str(ev(v.arr))[:400]}
        return sorted(v.elems, key=repr)
    if isinstance(v, VObj):
        d = {'__class__': v.cls}
        if v.strval is not None:
            d['__str__'] = concretize(v.strval, model)
        for k, x in v.fields.items():
            d[k] = concretize(x, model)
        return d
    if isinstance(v, VComp):
        return {'__component__': v.kind, 'ref': term_to_py(ev(v.ref))}
    return repr(v)
