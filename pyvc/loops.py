"""Loop rule with a stated invariant (no unrolling, any number of iterations).

  assert I                      on entry                           (<f>.loop<k>.inv[j].init)
  havoc  everything the body may modify
  assume I
  either  an arbitrary iteration: assume guard, run the body, assert I (…inv[j].keep) and the
          variant decrease (…variant), end of path;  ``break`` leaves with the state at the break
  or      exit: assume not guard (the whole collection has been visited), run ``else``, go on.

Ghost variables available in the invariant:
  for x in <sequence>:        ``index`` name (default _i): number of elements already visited
  for k in <dict / key view>: ``done`` name (default _done): set of keys already visited
  pre(e): value of e on loop entry;  old(e): value on function entry.
"""
import ast
import z3
from . import pv
from .pv import PV, SInt, SAny, VList, VDict, VSet, VKeys, VSeqIter, VObj, Unsupported, snapshot, lower, lift
from .apply import spec_eval, spec_bool, havoc_value
from .contract import parse_expr, pre_exprs, prev_exprs
from .explore import PathEnd


MUT = {'append', 'extend', 'pop', 'add', 'update', 'remove', 'clear', 'insert', 'sort', 'setdefault',
       'popitem', 'discard', 'reverse'}

# ghost state touched by protocol models, by method name
MODEL_GHOST = {}


def modset(body_nodes):
    """(assigned names, mutated container expressions, assigned attribute expressions, called method names)."""
    names, containers, attrs, calls = set(), [], [], set()

    class V(ast.NodeVisitor):
        def visit_FunctionDef(self, n):
            names.add(n.name)

        def visit_Lambda(self, n):
            pass

        def target(self, t):
            if isinstance(t, ast.Name):
                names.add(t.id)
            elif isinstance(t, (ast.Tuple, ast.List)):
                for e in t.elts:
                    self.target(e)
            elif isinstance(t, ast.Subscript):
                containers.append(t.value)
            elif isinstance(t, ast.Attribute):
                attrs.append(t)
            elif isinstance(t, ast.Starred):
                self.target(t.value)

        def visit_Assign(self, n):
            for t in n.targets:
                self.target(t)
            self.generic_visit(n)

        def visit_AugAssign(self, n):
            self.target(n.target)
            if isinstance(n.target, ast.Name):
                containers.append(n.target)       # l += [...] mutates in place
            self.generic_visit(n)

        def visit_For(self, n):
            self.target(n.target)
            self.generic_visit(n)

        def visit_Delete(self, n):
            for t in n.targets:
                self.target(t)

        def visit_ExceptHandler(self, n):
            if n.name:
                names.add(n.name)
            self.generic_visit(n)

        def visit_Call(self, n):
            if isinstance(n.func, ast.Attribute):
                calls.add(n.func.attr)
                recv = ast.unparse(n.func.value).split('.')[-1]
                calls.add(recv + '.' + n.func.attr)
                if n.func.attr in MUT:
                    containers.append(n.func.value)
                    if isinstance(n.func.value, ast.Subscript):
                        # d[k].append(x): the list is held (by value) in d, which changes as well
                        containers.append(n.func.value.value)
            self.generic_visit(n)

        def visit_ListComp(self, n):
            for g in n.generators:
                pass
            self.generic_visit(n)

    v = V()
    for b in body_nodes:
        v.visit(b)
    return names, containers, attrs, calls


def _mentions_nth(t, seq, depth=0):
    if z3.is_app(t):
        if t.decl().kind() == z3.Z3_OP_SEQ_NTH and t.arg(0).eq(seq) and z3.is_var(t.arg(1)):
            return True
        return any(_mentions_nth(c, seq, depth + 1) for c in t.children())
    return False


def instantiate_at(ctx, seq, idx):
    """Facts of the form  forall i. ... seq[i] ...  (preconditions, invariants) are instantiated at the element the
    loop is about to visit, so that path pruning - which ignores quantified facts - knows the element's shape."""
    new = []
    for h in ctx.pc:
        if z3.is_quantifier(h) and h.is_forall() and h.num_vars() == 1 and h.var_sort(0) == z3.IntSort():
            body = h.body()
            if _mentions_nth(body, seq):
                new.append(z3.substitute_vars(body, idx))
    for f in new:
        ctx.assume(f)


str_chars = z3.Function('str_chars', z3.StringSort(), z3.SeqSort(z3.StringSort()))


def cut_loop(it, node, env, spec, iterable):
    from .interp import BreakSig, ContinueSig, UNBOUND, PyRaise, ReturnSig
    ctx = it.ctx
    k = spec['ordinal']
    fid = it.contract.id if it.contract else '?'
    tag = '%s.loop%d' % (fid, k)
    invs = list(spec.get('invariant', []))
    is_for = isinstance(node, ast.For)

    # ---- ghost iteration state
    mode = None
    if is_for and isinstance(iterable, pv.SStr):
        # iterating a string: its characters, as a sequence of one-character strings
        chars = str_chars(iterable.t)
        ctx.assume(z3.Length(chars) == z3.Length(iterable.t))
        iterable = VSeqIter(chars, elem='str')
    if is_for:
        if isinstance(iterable, (VList, VSeqIter, SAny, tuple)):
            mode = 'seq'
            if isinstance(iterable, VSeqIter) or (isinstance(iterable, VList) and iterable.symbolic):
                seq = iterable.seq
            else:
                seq = it.seq_term(iterable, node.lineno)
                iterable = VSeqIter(seq)
            iname = spec.get('index', '_i')
            env.set(iname, 0)
            if spec.get('iter'):
                # ghost name for the sequence being iterated (e.g. the result of sorted(...)), usable in invariants
                env.set(spec['iter'], iterable if isinstance(iterable, VSeqIter) else
                        VSeqIter(seq, elem=getattr(iterable, 'elem', 'any')))
        elif isinstance(iterable, (VKeys, VDict)):
            mode = 'keys'
            arr = iterable.arr
            view = getattr(iterable, 'view', 'keys')
            dname = spec.get('done', '_done')
            env.set(dname, VSet(arr=pv.EMPTY_SET))
            env.set(spec.get('domain', '_dom'), VKeys(arr))
        elif isinstance(iterable, VSet):
            mode = 'set'
            arr = iterable.to_arr()
            dname = spec.get('done', '_done')
            env.set(dname, VSet(arr=pv.EMPTY_SET))
        else:
            raise Unsupported('for loop over %r' % (iterable,))

    # ---- a contract that names the iterated sequence / asks for a specified order: the loop must not iterate a set
    # (set iteration order depends on the interpreter's hash seed, C12)
    if is_for and (spec.get('iter') or spec.get('ordered')):
        ctx.oblige('%s.visits_its_elements_in_a_specified_order' % tag, mode != 'set', node.lineno, 'order',
                   info={'clause': 'the loop iterates a sequence (list, tuple, sorted(...)), not a set: the order in '
                                   'which a set yields its elements depends on the hash seed',
                         'iterates': 'a set' if mode == 'set' else 'a sequence'})
        if mode == 'set':
            raise PathEnd()

    # ---- named snapshots of the entry state (ghost locals usable by inner loops as well)
    for sname, sexpr in spec.get('snap', {}).items():
        env.set(sname, snapshot(spec_eval(it, sexpr, env)))

    # ---- pre() snapshots
    pre = {}
    for s in invs + ([spec['variant']] if spec.get('variant') else []):
        for e in pre_exprs(parse_expr(s)):
            key = ast.dump(e)
            if key not in pre:
                pre[key] = snapshot(spec_eval(it, e, env))
    it.pre_frames = getattr(it, 'pre_frames', [])
    it.pre_frames.append(pre)

    pushed_prev = False
    try:
        # ---- invariant on entry
        for j, s in enumerate(invs):
            ctx.oblige('%s.inv[%d].init' % (tag, j), spec_bool(it, s, env), node.lineno, 'inv-init',
                       info={'clause': s})

        # ---- havoc
        body_nodes = list(node.body) + ([node.test] if not is_for else [])
        names, containers, attrs, calls = modset(body_nodes)
        if is_for:
            tnames, _, _, _ = modset([ast.Assign(targets=[node.target], value=ast.Constant(value=None))])
            names |= tnames
        entry_alloc = pv.alloc_now()
        havocked, havocked_fields = set(), set()
        # containers / attributes named in the body, resolved in the entry state
        objs = []
        for ce in containers:
            try:
                ctx.spec_depth += 1
                try:
                    o = it.eval(ce, env)
                finally:
                    ctx.spec_depth -= 1
            except (KeyError, Unsupported, PyRaise):
                continue
            if isinstance(o, (VList, VDict, VSet)):
                objs.append(o)
        # containers the body mutates through a local alias bound inside the body (modData = outDict['oids']): the
        # contract names them as expressions over the entry state
        for ex in spec.get('mutates', []):
            o = spec_eval(it, ex, env)
            if isinstance(o, (VList, VDict, VSet)):
                objs.append(o)
        attr_targets = []
        for a in attrs:
            try:
                ctx.spec_depth += 1
                try:
                    o = it.eval(a.value, env)
                finally:
                    ctx.spec_depth -= 1
            except (KeyError, Unsupported, PyRaise):
                continue
            if isinstance(o, VObj):
                attr_targets.append((o, a.attr))
        # frames of callees under contract and ghost state of protocol models
        extra_paths = list(spec.get('assigns', []))
        for m in calls:
            if '.' in m:
                continue
            # ghost state of protocol models: by receiver.method when every call of this method in the body
            # has a known receiver name, else everything the method name may touch
            recvs = [c for c in calls if c.endswith('.' + m)]
            if recvs and all(r in MODEL_GHOST for r in recvs):
                for r in recvs:
                    for g in MODEL_GHOST[r]:
                        extra_paths.append('ghost:' + g)
            else:
                for g in MODEL_GHOST.get(m, ()):
                    extra_paths.append('ghost:' + g)
            for c in it.world.contracts.values():
                if c.func.split('.')[-1] == m:
                    for p in c.assigns:
                        if p.startswith('self.') or p.startswith('ghost:'):
                            extra_paths.append(p)
        for o in objs:
            if o.born <= entry_alloc:
                havocked.add(id(o))
        for (o, a) in attr_targets:
            havocked_fields.add((id(o), a))
        frame = {'entry_alloc': entry_alloc + 1, 'havocked': havocked, 'havocked_fields': havocked_fields}
        # perform the havoc (outside of any frame restriction of *this* loop)
        for o in objs:
            havoc_value(it, o, 'lp%d' % k)
        for (o, a) in attr_targets:
            cur = o.fields.get(a)
            new = havoc_value(it, cur, a)
            o.fields[a] = new
            if new is cur:
                havocked.add(id(cur))
        from .apply import resolve_location, havoc_location
        for p in dict.fromkeys(extra_paths):
            try:
                loc = resolve_location(it, env, p)
            except Unsupported:
                continue
            if loc[0] == 'attr' and isinstance(loc[1], VObj):
                cur = loc[1].fields.get(loc[2])
                if isinstance(cur, (VList, VDict, VSet)):
                    havocked.add(id(cur))
                havocked_fields.add((id(loc[1]), loc[2]))
            havoc_location(it, env, p)
        typed = spec.get('locals', {})
        for n in sorted(names):
            if n in typed:
                from .contract import build
                env.set(n, build(typed[n], it, n))
            elif env.has(n):
                cur = env.lookup(n)
                if isinstance(cur, (VList, VDict, VSet)):
                    if id(cur) not in havocked:
                        havoc_value(it, cur, n)
                        havocked.add(id(cur))
                elif cur is UNBOUND:
                    pass
                else:
                    env.set(n, pv.fresh_like(cur, ctx.fresh))
            else:
                env.set(n, UNBOUND)
        if mode == 'seq':
            env.set(iname, SInt(ctx.fresh(z3.IntSort(), iname)))
            ctx.assume(z3.And(env.lookup(iname).t >= 0, env.lookup(iname).t <= z3.Length(seq)))
        elif mode in ('keys', 'set'):
            dn = VSet(arr=ctx.fresh(pv.PVSetS, dname))
            env.set(dname, dn)
            kk = ctx.fresh(z3.StringSort(), 'k')
            indom = (arr[kk] != pv.PAbsent) if mode == 'keys' else arr[kk]
            ctx.assume(z3.ForAll([kk], z3.Implies(dn.arr[kk], indom)))

        # ---- assume the invariant
        for s in invs:
            ctx.assume(spec_bool(it, s, env))
        variant0 = None
        if spec.get('variant'):
            variant0 = spec_eval(it, spec['variant'], env)
        # step clauses: relations between the state at the start and at the end of an arbitrary iteration
        # (prev(e) = e at the start); the building blocks of a lexicographic termination argument
        steps = dict(spec.get('step', {}))
        prevs = {}
        for s in steps.values():
            for e in prev_exprs(parse_expr(s)):
                key = ast.dump(e)
                if key not in prevs:
                    prevs[key] = snapshot(spec_eval(it, e, env))
        it.prev_frames = getattr(it, 'prev_frames', [])
        it.prev_frames.append(prevs)
        pushed_prev = True

        # ---- iteration or exit
        if is_for:
            d = ctx.choose(2, tag)
        else:
            d = 0 if it.test(it.eval(node.test, env), tag) else 1
        if d == 0:
            if mode == 'seq':
                i = env.lookup(iname)
                ctx.assume(i.t < z3.Length(seq))
                instantiate_at(ctx, seq, i.t)
                ev = pv.elem_value(iterable, seq[i.t])
                if isinstance(ev, SAny) and not ctx.feasible(z3.Not(PV.is_PStr(ev.t))):
                    ev = pv.SStr(PV.s(ev.t))         # the element is known to be a string: typed leaf
                it.assign(node.target, ev, env)
            elif mode in ('keys', 'set'):
                ek = ctx.fresh(z3.StringSort(), 'key')       # keys of symbolic dicts / sets are strings
                key = pv.SStr(ek)
                dn = env.lookup(dname)
                ctx.assume((arr[ek] != pv.PAbsent) if mode == 'keys' else arr[ek])
                ctx.assume(z3.Not(dn.arr[ek]))
                if mode == 'keys' and view == 'items':
                    it.assign(node.target, (key, lower(arr[ek])), env)
                elif mode == 'keys' and view == 'values':
                    it.assign(node.target, lower(arr[ek]), env)
                else:
                    it.assign(node.target, key, env)
            ctx.cover(tag + '.iteration')
            it.loop_frames.append(frame)
            try:
                try:
                    it.exec_block(node.body, env)
                except ContinueSig:
                    pass
            except BreakSig:
                it.loop_frames.pop()
                ctx.cover(tag + '.break')
                return
            except BaseException:
                it.loop_frames.pop()
                raise
            it.loop_frames.pop()
            # end of an arbitrary iteration: step the ghost state, re-establish the invariant
            if mode == 'seq':
                env.set(iname, SInt(env.lookup(iname).t + 1))
            elif mode in ('keys', 'set'):
                dn = env.lookup(dname)
                env.set(dname, VSet(arr=z3.Store(dn.arr, ek, z3.BoolVal(True))))
            for j, s in enumerate(invs):
                ctx.oblige('%s.inv[%d].keep' % (tag, j), spec_bool(it, s, env), node.lineno, 'inv-keep',
                           info={'clause': s})
            for sname, s in steps.items():
                ctx.oblige('%s.step.%s' % (tag, sname), spec_bool(it, s, env), node.lineno, 'step',
                           info={'clause': s})
            if variant0 is not None:
                v1 = spec_eval(it, spec['variant'], env)
                a, b = pv.as_term_int(variant0), pv.as_term_int(v1)
                ctx.oblige('%s.variant' % tag, z3.And(b >= 0, b < a), node.lineno, 'variant',
                           info={'clause': spec['variant']})
            raise PathEnd()
        # exit
        if mode == 'seq':
            ctx.assume(env.lookup(iname).t == z3.Length(seq))
        elif mode in ('keys', 'set'):
            dn = env.lookup(dname)
            kk = ctx.fresh(z3.StringSort(), 'k')
            indom = (arr[kk] != pv.PAbsent) if mode == 'keys' else arr[kk]
            ctx.assume(z3.ForAll([kk], z3.Implies(indom, dn.arr[kk])))
        ctx.cover(tag + '.exit')
        it.exec_block(node.orelse, env)
    finally:
        it.pre_frames.pop()
        if pushed_prev:
            it.prev_frames.pop()
