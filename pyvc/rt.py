"""Concrete interpreter of contract clauses + replay of counterexamples against the real code.

Pure standard library: runs under /venv/bin/python (the interpreter of the repository's tests).
A replay file is a small script holding a REPLAY dict; ``python replay.py`` exits
  10  the real function, run on the recorded input, violates the recorded clause (reproduced)
  0   the clause holds on the real run (not reproduced)
  20  the input could not be rebuilt / the clause could not be evaluated
"""
import ast
import copy
import importlib
import json
import os
import re
import sys
import types


class Dyn(object):
    """Stand-in for an object whose class is not importable (tokens, lexers, productions)."""

    def __init__(self, **kw):
        self.__dict__.update(kw)

    def __repr__(self):
        return 'Dyn(%r)' % (self.__dict__,)


def implies(a, b):
    return (not a) or bool(b)


def iff(a, b):
    return bool(a) == bool(b)


def ite(c, a, b):
    return a if c else b


def forall(*args):
    if len(args) == 2:
        coll, f = args
        n = f.__code__.co_argcount
        if isinstance(coll, dict) and n == 2:
            return all(f(k, v) for k, v in coll.items())
        if n == 2:
            return all(f(i, x) for i, x in enumerate(coll))
        return all(f(x) for x in coll)
    raise NotImplementedError('unbounded quantifier in concrete mode')


def exists(*args):
    if len(args) == 2:
        coll, f = args
        n = f.__code__.co_argcount
        if isinstance(coll, dict) and n == 2:
            return any(f(k, v) for k, v in coll.items())
        if n == 2:
            return any(f(i, x) for i, x in enumerate(coll))
        return any(f(x) for x in coll)
    raise NotImplementedError('unbounded quantifier in concrete mode')


def is_exc(e, name):
    return e is not None and any(c.__name__ == name for c in type(e).__mro__)


def truthy(x):
    return bool(x)


def is_none(x):
    return x is None


def is_str(x):
    return isinstance(x, str)


def is_int(x):
    return isinstance(x, int)


class _Absent(object):
    def __repr__(self):
        return '<absent>'

    def __bool__(self):
        return False


ABSENT = _Absent()


def absent(x):
    return x is ABSENT


def matches(s, rx):
    return isinstance(s, str) and re.fullmatch(rx, s, re.DOTALL) is not None


def py_int(s):
    return int(s)


def py_int_base(s, b):
    return int(s, b)


def py_replace(s, a, b):
    return s.replace(a, b)


def seq(x):
    return tuple(x)


def concat(*xs):
    out = ()
    for x in xs:
        out += tuple(x)
    return out


def same(a, b):
    return a == b


def fld(o, name):
    return getattr(o, name, ABSENT)


def APPEND_GROUP(acc, item):
    if item is None:
        return acc
    return ('Compliances', (acc[1] if acc else []) + [item])


def GROUPS(a, b):
    return (a[1] if a else []) + (b[1] if b else [])


def NL(s):
    return len(re.findall(r'\r\n|\n|\r', s))


def HAS_TYPE(x):
    return True         # value types are checked symbolically only


HELPERS = dict(APPEND_GROUP=APPEND_GROUP, GROUPS=GROUPS, HAS_TYPE=HAS_TYPE, NL=NL,
               implies=implies, iff=iff, ite=ite, forall=forall, exists=exists, is_exc=is_exc, truthy=truthy,
               is_none=is_none, is_str=is_str, is_int=is_int, absent=absent, matches=matches, py_int=py_int,
               py_int_base=py_int_base, py_replace=py_replace, seq=seq, concat=concat, same=same, fld=fld)


class _OldLift(ast.NodeTransformer):
    def __init__(self):
        self.olds = []

    def visit_Call(self, n):
        if isinstance(n.func, ast.Name) and n.func.id == 'old':
            self.olds.append(n.args[0])
            return ast.copy_location(ast.Name(id='__old_%d' % (len(self.olds) - 1), ctx=ast.Load()), n)
        return self.generic_visit(n)


def prepare_clause(src):
    tree = ast.parse(src.strip(), mode='eval')
    tr = _OldLift()
    tree = ast.fix_missing_locations(tr.visit(tree))
    olds = [compile(ast.fix_missing_locations(ast.Expression(body=o)), '<old>', 'eval') for o in tr.olds]
    return compile(tree, '<clause>', 'eval'), olds


def load_module(repo, relpath):
    if repo not in sys.path:
        sys.path.insert(0, repo)
    dotted = relpath[:-3].replace('/', '.')
    if relpath.startswith('scripts/'):
        import importlib.util as iu
        spec = iu.spec_from_file_location(dotted.replace('.', '_'), os.path.join(repo, relpath))
        m = iu.module_from_spec(spec)
        return m
    return importlib.import_module(dotted)


def find_class(name, mod):
    if hasattr(mod, name):
        return getattr(mod, name)
    for m in list(sys.modules.values()):
        if m is not None and getattr(m, '__name__', '').startswith('pysmi') and hasattr(m, name):
            c = getattr(m, name)
            if isinstance(c, type):
                return c
    return None


def rebuild(v, mod):
    """concretised value (see verify.concretize) -> real python object"""
    if isinstance(v, dict):
        if '__class__' in v:
            cls = find_class(v['__class__'], mod)
            fields = {k: rebuild(x, mod) for k, x in v.items() if k not in ('__class__', '__str__')}
            if cls is not None and isinstance(cls, type):
                if issubclass(cls, str):
                    o = cls(v.get('__str__', ''))
                elif issubclass(cls, BaseException):
                    o = cls(fields.get('msg', ''))
                else:
                    o = object.__new__(cls)
                for k, x in fields.items():
                    try:
                        setattr(o, k, x)
                    except AttributeError:
                        pass
                return o
            return Dyn(**fields)
        if any(isinstance(k, str) and k.startswith('<') for k in v):
            raise ValueError('symbolic container in the counter-model cannot be rebuilt: %r' % (v,))
        return {k: rebuild(x, mod) for k, x in v.items()}
    if isinstance(v, list):
        return [rebuild(x, mod) for x in v]
    if isinstance(v, tuple):
        return tuple(rebuild(x, mod) for x in v)
    if isinstance(v, str) and v.startswith('<') and v.endswith('>') and ('term' in v or '#' in v or v == '<absent>'):
        if v == '<absent>':
            return ABSENT
        raise ValueError('opaque value in the counter-model: %s' % v)
    return v


def from_json(v):
    """JSON has no tuples: {'$t': [...]} encodes one."""
    if isinstance(v, dict):
        if set(v) == {'$t'}:
            return tuple(from_json(x) for x in v['$t'])
        if set(v) == {'$b'}:
            return v['$b'].encode('latin-1')
        return {k: from_json(x) for k, x in v.items()}
    if isinstance(v, list):
        return [from_json(x) for x in v]
    return v


def to_json(v):
    if isinstance(v, tuple):
        return {'$t': [to_json(x) for x in v]}
    if isinstance(v, bytes):
        return {'$b': v.decode('latin-1')}
    if isinstance(v, dict):
        return {str(k): to_json(x) for k, x in v.items()}
    if isinstance(v, list):
        return [to_json(x) for x in v]
    return v


def run_function_replay(R):
    repo = os.environ.get('VERIF_REPO', R.get('repo', '/repo'))
    mod = load_module(repo, R['file'])
    obj = mod
    for part in R['func'].split('.'):
        obj = getattr(obj, part)
    fn = obj
    try:
        inputs = {k: rebuild(from_json(v), mod) for k, v in R['inputs'].items()}
    except ValueError as e:
        print('REPLAY cannot rebuild input: %s' % e)
        return 20
    ns = dict(HELPERS)
    ns.update(inputs)
    if isinstance(inputs.get('__names__'), dict):
        ns.update(inputs['__names__'])
    for name, ex in R.get('let', {}).items():
        try:
            ns[name] = eval(ex, ns)
        except Exception as e:      # noqa
            ns[name] = None
    code, olds = prepare_clause(R['clause']) if R.get('clause') else (None, [])
    for i, o in enumerate(olds):
        try:
            ns['__old_%d' % i] = copy.deepcopy(eval(o, ns))
        except Exception:       # noqa
            ns['__old_%d' % i] = None
    argnames = R['argnames']
    # a parameter declared as **name receives its dict as keyword arguments, one declared as *name as positionals
    import inspect
    kwname = starname = None
    try:
        for pn, pp in inspect.signature(fn).parameters.items():
            if pp.kind == pp.VAR_KEYWORD:
                kwname = pn
            elif pp.kind == pp.VAR_POSITIONAL:
                starname = pn
    except (TypeError, ValueError):
        pass
    args = [inputs[a] for a in argnames if a in inputs and a not in (kwname, starname)]
    if starname in inputs:
        args += list(inputs[starname])
    kw = dict(inputs.get('__kwargs__', {}))
    if kwname in inputs and isinstance(inputs[kwname], dict):
        kw.update(inputs[kwname])
    result, raised, exc = None, False, None
    try:
        result = fn(*args, **kw)
    except BaseException as e:     # noqa
        raised, exc = True, e
    ns.update(result=result, raised=raised, exc=exc)
    print('REPLAY %s(%s)' % (R['func'], ', '.join('%s=%r' % (a, inputs[a]) for a in argnames if a in inputs)))
    print('REPLAY outcome: %s' % ('raised %r' % (exc,) if raised else 'returned %r' % (result,)))
    if R.get('kind') == 'raises':
        allowed = R.get('allowed', [])
        bad = raised and not any(is_exc(exc, a) for a in allowed)
        if raised and not bad and code is not None:
            pass
        print('REPLAY obligation %s: %s' % (R['obligation'], 'VIOLATED (unexpected exception)' if bad else 'holds'))
        return 10 if bad else 0
    try:
        ok = bool(eval(code, ns))
    except Exception as e:      # noqa
        print('REPLAY clause could not be evaluated concretely: %r' % (e,))
        return 20
    print('REPLAY obligation %s [%s]: %s' % (R['obligation'], R['clause'], 'holds' if ok else 'VIOLATED'))
    return 0 if ok else 10


def main(R):
    kind = R.get('replay', 'function')
    if kind == 'function':
        sys.exit(run_function_replay(R))
    mod = importlib.import_module('pyvc.replays.' + kind)
    sys.exit(mod.run(R))
