"""Semantics of built-in operations, written once.

CPython library functions that are *trusted* (assumed to behave as documented) appear here as
uninterpreted z3 functions with the few facts the proofs need:
  py_int(s)            int(str)            (StrToInt for non-negative decimal strings)
  py_int_base(s, b)    int(str, base)
  py_replace(s, a, b)  str.replace (all occurrences)
  py_upper / py_lower  str.upper / str.lower
  py_join(sep, seq) / py_split(s, sep)
  py_format(tag, args) any %-formatting or f-string (only ever used for messages)
"""
import ast
import z3
from . import pv
from .pv import (PV, SInt, SBool, SStr, SAny, VList, VDict, VSet, VObj, VKeys, VSeqIter, VFunc, VBound,
                 VClass, VModule, VBuiltin, VComp, Unsupported, lift, lower, truthy, veq, mkbool,
                 as_term_int, as_term_str, is_concrete, PVSeq)

S = z3.StringSort()
I = z3.IntSort()
py_int = z3.Function('py_int', S, I)
py_int_base = z3.Function('py_int_base', S, I, I)
py_replace = z3.Function('py_replace', S, S, S, S)
py_upper = z3.Function('py_upper', S, S)
py_lower = z3.Function('py_lower', S, S)
py_join = z3.Function('py_join', S, PVSeq, S)
py_split = z3.Function('py_split', S, S, PVSeq)
py_format = z3.Function('py_format', S, PVSeq, S)
py_str = z3.Function('py_str', PV, S)          # str(x) for non-int x
py_repr = z3.Function('py_repr', PV, S)
py_hex = z3.Function('py_hex', I, S)
py_count = z3.Function('py_count', S, S, I)
py_sorted = z3.Function('py_sorted', PVSeq, PVSeq)
py_encode = z3.Function('py_encode', S, S)     # str -> bytes payload (utf-8, errors ignored)
py_decode = z3.Function('py_decode', S, S)
py_strip = z3.Function('py_strip', S, S)

UNBOUND = None  # set by interp import below


seq_elems = z3.Function('seq_elems', z3.SeqSort(z3.StringSort()), pv.PVSetS)
seq_elems_pv = z3.Function('seq_elems_pv', pv.PVSeq, pv.PVSetS)


def _unbound():
    from .interp import UNBOUND as U
    return U


# --------------------------------------------------------------------------
# small helpers

def is_sym(v):
    return isinstance(v, pv.Sym)


def is_intlike(v):
    return isinstance(v, (int, SInt)) and not isinstance(v, bool) or isinstance(v, bool)


def is_strlike(v):
    return isinstance(v, (str, SStr))


def ite(it, c, a, b):
    """z3 If over values."""
    if a is b:
        return a
    if is_intlike(a) and is_intlike(b):
        return SInt(z3.If(c, as_term_int(a), as_term_int(b)))
    if is_strlike(a) and is_strlike(b):
        return SStr(z3.If(c, as_term_str(a), as_term_str(b)))
    if isinstance(a, (bool, SBool)) and isinstance(b, (bool, SBool)):
        return mkbool(z3.If(c, pv.as_term_bool(a), pv.as_term_bool(b)))
    return lower(z3.If(c, lift(a), lift(b)))


def concrete_items(it, v):
    """list of values when the iteration structure of v is concrete, else None."""
    if isinstance(v, tuple):
        return list(v)
    if isinstance(v, str):
        return list(v)
    if isinstance(v, VList):
        return None if v.symbolic else list(v.items)
    if isinstance(v, VDict):
        return None if v.symbolic else list(v.keys)
    if isinstance(v, VSet):
        if v.symbolic:
            return None
        if len(v.elems) > 1 and not it.spec():
            it.ctx.note('iteration over a set of %d+ elements explored in insertion order only '
                        '(order independence is a separate obligation, see C12)' % 2)
        return list(v.elems)
    return None


def concrete_items_strict(it, v):
    r = concrete_items(it, v)
    if r is None:
        raise Unsupported('expected a collection of concrete shape, got %r' % (v,))
    return r


def newlist(items):
    return VList(list(items))


def str_len(v):
    if isinstance(v, str):
        return len(v)
    return SInt(z3.Length(as_term_str(v)))


def norm_index(it, i, n_term):
    """python index normalisation: negative indices count from the end."""
    if isinstance(i, int):
        return z3.IntVal(i) if i >= 0 else n_term + i
    t = as_term_int(i)
    return z3.If(t < 0, n_term + t, t)


def clamp_slice(lo, hi, n):
    """(start, length) of s[lo:hi] for a sequence of length n (z3 terms / None)."""
    if (lo is None or (isinstance(lo, int) and lo >= 0)) and isinstance(hi, int) and hi >= 0 \
            and not isinstance(lo, bool) and not isinstance(hi, bool):
        # z3's substr already clamps at the end of the string: s[a:b] == substr(s, a, b - a) for 0 <= a, b
        a = lo or 0
        return z3.IntVal(a), z3.IntVal(max(0, hi - a))
    if (lo is None or (isinstance(lo, int) and lo >= 0)) and isinstance(hi, int) and hi < 0 \
            and not isinstance(lo, bool) and not isinstance(hi, bool):
        # s[a:-b]: substr(s, a, n - b - a); z3's substr yields "" for a negative length or a start beyond the end
        a = lo or 0
        return z3.IntVal(a), n + hi - a
    def norm(x, dflt):
        if x is None:
            return dflt
        if isinstance(x, int):
            t = z3.IntVal(x) if x >= 0 else n + x
        else:
            xt = as_term_int(x)
            t = z3.If(xt < 0, n + xt, xt)
        return z3.If(t < 0, z3.IntVal(0), z3.If(t > n, n, t))
    a = norm(lo, z3.IntVal(0))
    b = norm(hi, n)
    return a, z3.If(b > a, b - a, z3.IntVal(0))


# --------------------------------------------------------------------------
# subscripts

def getitem(it, base, idx, line=None):
    ctx = it.ctx
    if isinstance(idx, tuple) and idx and idx[0] == 'slice':
        return getslice(it, base, idx[1], idx[2], idx[3], line)
    # ---- concrete sequences
    if isinstance(base, (tuple, str)) or (isinstance(base, VList) and not base.symbolic):
        if is_strlike(idx) or idx is None:
            it.raise_py('TypeError', 'sequence indices must be integers', line)
        items = base if isinstance(base, (tuple, str)) else base.items
        if isinstance(idx, bool) or not isinstance(idx, int):
            if isinstance(idx, (SInt, SAny)) and not isinstance(base, str):
                # symbolic index into a concrete sequence: ite chain
                t = as_term_int(idx)
                n = len(items)
                nt = norm_index(it, idx, z3.IntVal(n))
                ok = z3.And(nt >= 0, nt < n)
                if not it.spec() and not ctx.branch(ok, 'index@%s' % line):
                    it.raise_py('IndexError', 'index out of range', line)
                r = lift(items[n - 1]) if n else pv.PNone
                for k in range(n - 2, -1, -1):
                    r = z3.If(nt == k, lift(items[k]), r)
                return lower(r)
            if isinstance(base, str):
                return getitem(it, SStr(z3.StringVal(base)), idx, line)
            raise Unsupported('index %r' % (idx,))
        n = len(items)
        if -n <= idx < n:
            return items[idx]
        if it.spec():
            return SAny(pv.PAbsent)
        it.raise_py('IndexError', 'index out of range', line)
    if isinstance(base, SStr):
        if is_strlike(idx) or idx is None:
            it.raise_py('TypeError', 'string indices must be integers', line)
        n = z3.Length(base.t)
        i = norm_index(it, idx, n)
        ok = z3.And(i >= 0, i < n)
        if not it.spec() and not ctx.branch(ok, 'strindex@%s' % line):
            it.raise_py('IndexError', 'string index out of range', line)
        return SStr(z3.SubString(base.t, i, 1))
    if isinstance(base, (VList, VSeqIter)):
        if is_strlike(idx) or idx is None or isinstance(idx, (tuple, VList, VDict)):
            it.raise_py('TypeError', 'sequence indices must be integers', line)
        seq = base.seq
        n = z3.Length(seq)
        if it.spec() and not isinstance(idx, int):
            i = as_term_int(idx)
        else:
            i = norm_index(it, idx, n)
        ok = z3.And(i >= 0, i < n)
        if not it.spec() and not ctx.branch(ok, 'index@%s' % line):
            it.raise_py('IndexError', 'index out of range', line)
        return pv.elem_value(base, seq[i])
    if isinstance(base, VDict):
        return dict_load(it, base, idx, line)
    if isinstance(base, SAny):
        t = base.t
        if it.spec():
            if is_strlike(idx) or (isinstance(idx, SAny) and False):
                return lower(PV.dvals(t)[pv.kenc(idx)])
            if is_intlike(idx):
                # specifications index tuples / lists (not int-keyed dicts); a symbolic index is taken as
                # non-negative (quantifier ranges guarantee it), a negative literal counts from the end
                seq = z3.If(PV.is_PTuple(t), PV.titems(t), PV.litems(t))
                if isinstance(idx, int) and not isinstance(idx, bool):
                    i = norm_index(it, idx, z3.Length(seq))
                else:
                    i = as_term_int(idx)
                return lower(seq[i])
            return lower(PV.dvals(t)[pv.kenc(idx)])
        if ctx.branch(PV.is_PTuple(t), 'istuple@%s' % line):
            return taint(getitem(it, VSeqIter(PV.titems(t)), idx, line), base)
        if ctx.branch(PV.is_PList(t), 'islist@%s' % line):
            return taint(getitem(it, VSeqIter(PV.litems(t), 'list'), idx, line), base)
        if ctx.branch(PV.is_PStr(t), 'isstr@%s' % line):
            return getitem(it, SStr(PV.s(t)), idx, line)
        if ctx.branch(PV.is_PDict(t), 'isdict@%s' % line):
            v = PV.dvals(t)[pv.kenc(idx)]
            if not ctx.branch(v != pv.PAbsent, 'haskey@%s' % line):
                it.raise_py('KeyError', 'key', line)
            instantiate_map_at(ctx, pv.ssimp(PV.dvals(t)), pv.kenc(idx))
            return taint(lower(v), base)
        it.raise_py('TypeError', 'object is not subscriptable', line)
    if isinstance(base, VObj):
        gi = it.getattr(base, '__getitem__', line, default=None)
        if gi is not None:
            return it.call_value(gi, [idx], {}, line)
    if base is None:
        it.raise_py('TypeError', "'NoneType' object is not subscriptable", line)
    if isinstance(base, (int, SInt, bool, SBool)):
        it.raise_py('TypeError', "'int' object is not subscriptable", line)
    raise Unsupported('subscript of %r' % (base,))


def getslice(it, base, lo, hi, step, line=None):
    if step is not None:
        raise Unsupported('slice step')
    conc_bounds = all(x is None or (isinstance(x, int) and not isinstance(x, bool)) for x in (lo, hi))
    if isinstance(base, (str, tuple)) and conc_bounds:
        return base[lo:hi]
    if isinstance(base, VList) and not base.symbolic and conc_bounds:
        return newlist(base.items[lo:hi])
    if isinstance(base, (str, SStr)):
        s = as_term_str(base)
        a, ln = clamp_slice(lo, hi, z3.Length(s))
        return SStr(z3.SubString(s, a, ln))
    if isinstance(base, (VList, VSeqIter, tuple)):
        typed = isinstance(base, VSeqIter) or (isinstance(base, VList) and base.symbolic)
        seq = base.seq if typed else it.seq_term(base, line)
        el = base.elem if typed else 'any'
        a, ln = clamp_slice(lo, hi, z3.Length(seq))
        sub = z3.SubSeq(seq, a, ln)
        if isinstance(base, VList) or (isinstance(base, VSeqIter) and base.kind == 'list'):
            return VList(seq=sub, elem=el)
        return VSeqIter(sub, elem=el)
    if isinstance(base, SAny):
        t = base.t
        if it.spec():
            def sub(x):
                a, ln = clamp_slice(lo, hi, z3.Length(x))
                return z3.SubString(x, a, ln)

            def subseq(x):
                a, ln = clamp_slice(lo, hi, z3.Length(x))
                return z3.SubSeq(x, a, ln)
            return lower(z3.If(PV.is_PStr(t), PV.PStr(sub(PV.s(t))),
                         z3.If(PV.is_PBytes(t), PV.PBytes(sub(PV.by(t))),
                         z3.If(PV.is_PTuple(t), PV.PTuple(subseq(PV.titems(t))),
                               PV.PList(subseq(PV.litems(t)))))))
        if it.ctx.branch(PV.is_PStr(t), 'isstr@%s' % line):
            return getslice(it, SStr(PV.s(t)), lo, hi, step, line)
        if it.ctx.branch(PV.is_PTuple(t), 'istuple@%s' % line):
            return getslice(it, VSeqIter(PV.titems(t)), lo, hi, step, line)
        if it.ctx.branch(PV.is_PList(t), 'islist@%s' % line):
            return getslice(it, VSeqIter(PV.litems(t), 'list'), lo, hi, step, line)
        if it.ctx.branch(PV.is_PBytes(t), 'isbytes@%s' % line):
            s = PV.by(t)
            a, ln = clamp_slice(lo, hi, z3.Length(s))
            return SAny(PV.PBytes(z3.SubString(s, a, ln)))
        it.raise_py('TypeError', 'object is not subscriptable', line)
    raise Unsupported('slice of %r' % (base,))


def dict_key_ok(k):
    # callables / type objects are hashable by identity: usable as keys of a concrete dict
    return is_concrete(k) or isinstance(k, (VBuiltin, VClass, TypeMarker))


def dict_load(it, d, k, line=None):
    ctx = it.ctx
    if not d.symbolic:
        if dict_key_ok(k):
            if k in d.vals:
                return d.vals[k]
            if it.spec():
                return SAny(pv.PAbsent)
            it.raise_py('KeyError', repr(k), line)
        # symbolic key into a concrete dict: case split over the keys
        if it.spec():
            r = pv.PAbsent
            for kk in reversed(d.keys):
                e = veq(k, kk)
                if e is True:
                    r = lift(d.vals[kk])
                elif e is not False:
                    r = z3.If(e.t, lift(d.vals[kk]), r)
            return lower(r)
        for kk in d.keys:
            e = veq(k, kk)
            if e is True or (e is not False and ctx.branch(e.t, 'key==%r@%s' % (kk, line))):
                return d.vals[kk]
        it.raise_py('KeyError', 'key', line)
    v = d.arr[pv.kenc(k)]
    if not it.spec():
        if not ctx.branch(v != pv.PAbsent, 'haskey@%s' % line):
            it.raise_py('KeyError', 'key', line)
        instantiate_map_at(ctx, d.arr, pv.kenc(k))
    r = lower(v)
    if isinstance(r, SAny) and not it.spec():
        r.origin = (d, k)
        r.shared_from = d
    return r


def _mentions_select(t, arr, depth=0):
    if z3.is_app(t):
        if t.decl().kind() == z3.Z3_OP_SELECT and t.arg(0).eq(arr) and z3.is_var(t.arg(1)):
            return True
        return any(_mentions_select(c, arr, depth + 1) for c in t.children())
    return False


def instantiate_map_at(ctx, arr, key):
    """Facts of the form  forall k. ... arr[k] ...  (preconditions, invariants over a symbolically indexed dict) are
    instantiated at the key the code is about to read, so that path pruning - which ignores quantified facts - knows
    the shape of the entry.  Sound: an instance of an assumed universal fact."""
    done = ctx.ghost.setdefault('__map_inst__', set())
    new = []
    for h in list(ctx.pc):
        if z3.is_quantifier(h) and h.is_forall() and h.num_vars() == 1 and h.var_sort(0) == z3.StringSort():
            tag = (h.get_id(), key.get_id())
            if tag in done:
                continue
            if _mentions_select(pv.ssimp(h.body()) if False else h.body(), arr):
                done.add(tag)
                new.append(z3.substitute_vars(h.body(), key))
    for f in new:
        # guard => consequent with the guard already on the path: assume the consequent itself, so that universal
        # facts nested in it become facts of their own (and can be instantiated at the next level)
        if z3.is_implies(f):
            g = pv.ssimp(f.arg(0))
            if z3.is_true(g) or any(h.eq(g) or h.eq(f.arg(0)) for h in ctx.pc) or not ctx.feasible(z3.Not(g)):
                f = f.arg(1)
        ctx.assume(f)


def dict_store(it, d, k, v):
    it.mutating(d)
    if not d.symbolic:
        if dict_key_ok(k):
            if k not in d.vals:
                d.keys.append(k)
            d.vals[k] = v
            return
        d.make_symbolic()
    d.arr = z3.Store(d.arr, pv.kenc(k), lift(v))


def dict_delete(it, d, k, line=None):
    it.mutating(d)
    ctx = it.ctx
    if not d.symbolic:
        if dict_key_ok(k):
            if k in d.vals:
                del d.vals[k]
                d.keys.remove(k)
                return
            it.raise_py('KeyError', repr(k), line)
        d.make_symbolic()
    if not ctx.branch(d.arr[pv.kenc(k)] != pv.PAbsent, 'delkey@%s' % line):
        it.raise_py('KeyError', 'key', line)
    d.arr = z3.Store(d.arr, pv.kenc(k), pv.PAbsent)


def dict_contains(it, d, k):
    if not d.symbolic:
        if dict_key_ok(k):
            return k in d.vals
        terms = []
        for kk in d.keys:
            e = veq(k, kk)
            if e is True:
                return True
            if e is not False:
                terms.append(e.t)
        return mkbool(z3.Or(*terms)) if terms else False
    return mkbool(d.arr[pv.kenc(k)] != pv.PAbsent)


def dict_update(it, d, other, kwargs=None):
    if isinstance(other, VDict) and not other.symbolic:
        for k in other.keys:
            dict_store(it, d, k, other.vals[k])
    elif isinstance(other, (VDict, SAny)) and other is not None:
        # update by a dict of symbolic content: the result is symbolic, entries of `other` win
        oarr = other.arr if isinstance(other, VDict) else PV.dvals(other.t)
        if isinstance(other, SAny) and not it.spec() and not it.ctx.branch(PV.is_PDict(other.t), 'update-dict'):
            it.raise_py('TypeError', 'dict.update argument is not a mapping')
        it.mutating(d)
        d.make_symbolic()
        k = z3.Const('upd.k', z3.StringSort())
        d.arr = z3.Lambda([k], z3.If(oarr[k] != pv.PAbsent, oarr[k], d.arr[k]))
    elif other is not None:
        items = concrete_items(it, other)
        if items is None and isinstance(other, (SAny, VList, VSeqIter)):
            # update by a list of pairs of symbolic length: dict(pairs) first (trusted view), then the dict case
            return dict_update(it, d, make_dict(it, [other], {}), kwargs)
        if items is None:
            raise Unsupported('dict.update with a symbolic argument')
        for pair in items:
            k, v = it.unpack(pair, 2)
            dict_store(it, d, k, v)
    for k, v in (kwargs or {}).items():
        dict_store(it, d, k, v)


def make_dict(it, args, kwargs, ordered='dict'):
    d = VDict()
    d.ordered_cls = ordered
    if args:
        a = args[0]
        if isinstance(a, (VDict, VList, tuple)) and concrete_items(it, a) is not None:
            dict_update(it, d, a)
        elif isinstance(a, VDict):
            d.make_symbolic()
            d.arr = a.arr
        elif isinstance(a, (SAny, VList, VSeqIter)):
            # dict(list of pairs) of symbolic length: array defined pointwise through an uninterpreted view
            seq = it.seq_term(a)
            d.make_symbolic()
            d.arr = pairs_to_map(seq)
            d.from_pairs = seq
            # dict(list of (key, value) pairs), trusted: every key is present; a present key comes from some
            # pair; with pairwise distinct keys every pair keeps its value
            ctx = it.ctx
            i, j = ctx.fresh(z3.IntSort(), 'pi'), ctx.fresh(z3.IntSort(), 'pj')
            k = ctx.fresh(z3.StringSort(), 'pk')
            n = z3.Length(seq)
            key = lambda q: pv.kenc_t(PV.titems(seq[q])[0])
            val = lambda q: PV.titems(seq[q])[1]
            ctx.note('dict(list of pairs): trusted view pairs_to_map (keys present, values from pairs)')
            ctx.assume(z3.ForAll([i], z3.Implies(z3.And(i >= 0, i < n), d.arr[key(i)] != pv.PAbsent)))
            ctx.assume(z3.ForAll([k], z3.Implies(d.arr[k] != pv.PAbsent,
                                                 z3.Exists([j], z3.And(j >= 0, j < n, key(j) == k, val(j) == d.arr[k])))))
            ctx.assume(z3.Implies(distinct_keys(seq),
                                  z3.ForAll([i], z3.Implies(z3.And(i >= 0, i < n), d.arr[key(i)] == val(i)))))
        else:
            raise Unsupported('dict(%r)' % (a,))
    for k, v in kwargs.items():
        dict_store(it, d, k, v)
    return d


pairs_to_map = z3.Function('pairs_to_map', PVSeq, pv.PVArr)
distinct_keys = z3.Function('distinct_keys', PVSeq, z3.BoolSort())     # the first components of the pairs differ pairwise


def sp_distinct_labels(it, args, kwargs):
    """DISTINCT_LABELS(pairs): the first components differ pairwise (definition added at every mention)"""
    seq = it.seq_term(args[0])
    ctx = it.ctx
    i, j = ctx.fresh(z3.IntSort(), 'di'), ctx.fresh(z3.IntSort(), 'dj')
    n = z3.Length(seq)
    key = lambda q: PV.titems(seq[q])[0]
    ctx.assume(distinct_keys(seq) == z3.ForAll([i, j], z3.Implies(z3.And(i >= 0, i < n, j >= 0, j < n, i != j),
                                                                 key(i) != key(j))))
    return mkbool(distinct_keys(seq))   # dict(list of pairs): last binding wins (trusted view)


def setitem(it, base, idx, v, line=None):
    if isinstance(base, VDict):
        return dict_store(it, base, idx, v)
    if isinstance(base, VList):
        it.mutating(base)
        if not base.symbolic and isinstance(idx, int) and not isinstance(idx, bool):
            n = len(base.items)
            if -n <= idx < n:
                base.items[idx] = v
                return
            it.raise_py('IndexError', 'list assignment index out of range', line)
        raise Unsupported('store into a symbolic list position')
    if isinstance(base, SAny) and getattr(base, 'origin', None) is not None and not it.spec():
        # d[k1][k2] = v where d[k1] is a dict stored (by value) in a symbolic dict: write the updated dict back
        d, k = base.origin
        t = base.t
        if not it.ctx.branch(PV.is_PDict(t), 'isdict@%s' % line):
            it.raise_py('TypeError', 'object does not support item assignment', line)
        ke = pv.kenc(idx)
        keys = z3.If(PV.dvals(t)[ke] == pv.PAbsent, z3.Concat(PV.dkeys(t), z3.Unit(lift(idx))), PV.dkeys(t))
        new = PV.PDict(keys, z3.Store(PV.dvals(t), ke, lift(v)))
        dict_store(it, d, k, SAny(new))
        return
    if isinstance(base, VObj):
        si = it.getattr(base, '__setitem__', line, default=None)
        if si is not None:
            return it.call_value(si, [idx, v], {}, line)
    raise Unsupported('subscript store on %r' % (base,))


def delitem(it, base, idx, line=None):
    if isinstance(base, VDict):
        return dict_delete(it, base, idx, line)
    if isinstance(base, VList) and idx == ('slice', None, None, None):
        # del xs[:]  empties the list in place (identity kept)
        it.mutating(base)
        if base.symbolic:
            base.seq = z3.Empty(base.seq.sort())
        else:
            base.items = []
        return None
    raise Unsupported('del on %r' % (base,))


# --------------------------------------------------------------------------
# comparison / arithmetic

def contains(it, container, x, line=None):
    ctx = it.ctx
    if isinstance(container, (tuple,)) or (isinstance(container, VList) and not container.symbolic):
        items = container if isinstance(container, tuple) else container.items
        terms = []
        for y in items:
            e = veq(x, y)
            if e is True:
                return True
            if e is not False:
                terms.append(e.t)
        return mkbool(z3.Or(*terms)) if terms else False
    if isinstance(container, (str, SStr)):
        if isinstance(container, str) and isinstance(x, str):
            return x in container
        if not is_strlike(x) and not isinstance(x, SAny):
            it.raise_py('TypeError', "'in <string>' requires string as left operand", line)
        return mkbool(z3.Contains(as_term_str(container), as_term_str(x)))
    if isinstance(container, (VList, VSeqIter)):
        et = pv.elem_term(container, x)
        if et is None:
            if isinstance(x, SAny):
                return mkbool(z3.And(PV.is_PStr(x.t), z3.Contains(container.seq, z3.Unit(PV.s(x.t)))))
            return False
        return mkbool(z3.Contains(container.seq, z3.Unit(et)))
    if isinstance(container, VDict):
        return dict_contains(it, container, x)
    if isinstance(container, VKeys):
        return mkbool(container.arr[pv.kenc(x)] != pv.PAbsent)
    if isinstance(container, VSet):
        if not container.symbolic:
            return contains(it, tuple(container.elems), x, line)
        return mkbool(container.arr[pv.kenc(x)])
    if isinstance(container, SAny):
        t = container.t
        lx = lift(x)
        if it.spec():
            return mkbool(z3.If(PV.is_PDict(t), PV.dvals(t)[pv.kenc_t(lx)] != pv.PAbsent,
                          z3.If(PV.is_PSet(t), PV.selems(t)[pv.kenc_t(lx)],
                          z3.If(PV.is_PTuple(t), z3.Contains(PV.titems(t), z3.Unit(lx)),
                          z3.If(PV.is_PList(t), z3.Contains(PV.litems(t), z3.Unit(lx)),
                                z3.And(PV.is_PStr(t), PV.is_PStr(lx), z3.Contains(PV.s(t), PV.s(lx))))))))
        if ctx.branch(PV.is_PDict(t), 'isdict@%s' % line):
            return mkbool(PV.dvals(t)[pv.kenc_t(lx)] != pv.PAbsent)
        if ctx.branch(PV.is_PTuple(t), 'istuple@%s' % line):
            return mkbool(z3.Contains(PV.titems(t), z3.Unit(lx)))
        if ctx.branch(PV.is_PList(t), 'islist@%s' % line):
            return mkbool(z3.Contains(PV.litems(t), z3.Unit(lx)))
        if ctx.branch(PV.is_PSet(t), 'isset@%s' % line):
            return mkbool(PV.selems(t)[pv.kenc_t(lx)])
        if ctx.branch(PV.is_PStr(t), 'isstr@%s' % line):
            return contains(it, SStr(PV.s(t)), x, line)
        it.raise_py('TypeError', 'argument is not iterable', line)
    if container is None or isinstance(container, (int, SInt, bool)):
        it.raise_py('TypeError', 'argument of this type is not iterable', line)
    raise Unsupported('membership in %r' % (container,))


def compare(it, op, a, b, line=None):
    if isinstance(op, ast.Eq):
        return veq(a, b)
    if isinstance(op, ast.NotEq):
        e = veq(a, b)
        return (not e) if isinstance(e, bool) else mkbool(z3.Not(e.t))
    if isinstance(op, ast.In):
        return contains(it, b, a, line)
    if isinstance(op, ast.NotIn):
        e = contains(it, b, a, line)
        return (not e) if isinstance(e, bool) else mkbool(z3.Not(e.t))
    if isinstance(op, (ast.Is, ast.IsNot)):
        r = identical(it, a, b)
        if isinstance(op, ast.IsNot):
            r = (not r) if isinstance(r, bool) else mkbool(z3.Not(r.t))
        return r
    # ordering
    if is_concrete(a) and is_concrete(b):
        try:
            if isinstance(op, ast.Lt):
                return a < b
            if isinstance(op, ast.LtE):
                return a <= b
            if isinstance(op, ast.Gt):
                return a > b
            if isinstance(op, ast.GtE):
                return a >= b
        except TypeError:
            it.raise_py('TypeError', 'unorderable types', line)
    if isinstance(a, VList) and isinstance(b, VList) and not a.symbolic and not b.symbolic:
        return compare(it, op, tuple(a.items), tuple(b.items), line)
    ka = 'int' if is_intlike(a) else 'str' if is_strlike(a) else None
    kb = 'int' if is_intlike(b) else 'str' if is_strlike(b) else None
    if isinstance(a, SAny) and kb:
        ka = kb
        if not it.spec() and not it.ctx.branch(PV.is_PInt(a.t) if kb == 'int' else PV.is_PStr(a.t), 'cmptype@%s' % line):
            it.raise_py('TypeError', 'unorderable types', line)
    if isinstance(b, SAny) and ka:
        kb = ka
        if not it.spec() and not it.ctx.branch(PV.is_PInt(b.t) if ka == 'int' else PV.is_PStr(b.t), 'cmptype@%s' % line):
            it.raise_py('TypeError', 'unorderable types', line)
    if isinstance(a, SAny) and isinstance(b, SAny):
        ka = kb = 'int'
        it.ctx.note('ordering comparison of two untyped values treated as integer comparison')
    if ka == 'int' and kb == 'int':
        x, y = as_term_int(a), as_term_int(b)
    elif ka == 'str' and kb == 'str':
        x, y = as_term_str(a), as_term_str(b)
    else:
        if ka and kb:
            it.raise_py('TypeError', 'unorderable types', line)
        raise Unsupported('ordering of %r and %r' % (a, b))
    if isinstance(op, ast.Lt):
        return mkbool(x < y)
    if isinstance(op, ast.LtE):
        return mkbool(x <= y)
    if isinstance(op, ast.Gt):
        return mkbool(x > y)
    if isinstance(op, ast.GtE):
        return mkbool(x >= y)
    raise Unsupported('comparison operator')


def identical(it, a, b):
    if a is None or b is None:
        o = b if a is None else a
        if o is None:
            return True
        if isinstance(o, SAny):
            return mkbool(PV.is_PNone(o.t))
        return False
    if isinstance(a, bool) and isinstance(b, bool):
        return a is b
    if is_concrete(a) and is_concrete(b):
        return a == b and type(a) is type(b)
    if isinstance(a, (VList, VDict, VSet, VObj, VFunc, VClass)) or isinstance(b, (VList, VDict, VSet, VObj, VFunc, VClass)):
        return a is b
    if isinstance(a, VComp) and isinstance(b, VComp):
        return mkbool(a.ref == b.ref)       # protocol components: identity is the opaque reference
    return veq(a, b)


def binop(it, op, a, b, line=None):
    if isinstance(op, ast.Add):
        if is_concrete(a) and is_concrete(b) and not isinstance(a, tuple):
            try:
                return a + b
            except TypeError:
                it.raise_py('TypeError', 'unsupported operand types for +', line)
        if isinstance(a, tuple) and isinstance(b, tuple):
            return a + b
        if is_intlike(a) and is_intlike(b):
            return SInt(as_term_int(a) + as_term_int(b))
        if is_strlike(a) and is_strlike(b):
            return SStr(z3.Concat(as_term_str(a), as_term_str(b)))
        if isinstance(a, VList) and isinstance(b, VList):
            if not a.symbolic and not b.symbolic:
                return newlist(a.items + b.items)
            if a.symbolic and b.symbolic and a.elem == b.elem:
                return VList(seq=z3.Concat(a.seq, b.seq), elem=a.elem)
            return VList(seq=z3.Concat(a.to_seq(), b.to_seq()))
        if isinstance(a, (tuple, VSeqIter)) and isinstance(b, (tuple, VSeqIter)):
            return VSeqIter(z3.Concat(it.seq_term(a), it.seq_term(b)))
        if it.spec() and (is_strlike(a) or is_strlike(b)) and (isinstance(a, SAny) or isinstance(b, SAny)):
            return SStr(z3.Concat(as_term_str(a), as_term_str(b)))
        if isinstance(a, SAny) or isinstance(b, SAny):
            return add_any(it, a, b, line)
        if (is_strlike(a) and is_intlike(b)) or (is_intlike(a) and is_strlike(b)) or a is None or b is None:
            it.raise_py('TypeError', 'unsupported operand types for +', line)
        if isinstance(a, (tuple, VSeqIter)) or isinstance(b, (tuple, VSeqIter)) or isinstance(a, VList) or isinstance(b, VList):
            it.raise_py('TypeError', 'can only concatenate like sequences', line)
        raise Unsupported('%r + %r' % (a, b))
    if isinstance(op, ast.Mod):
        if is_strlike(a):
            return opaque_format(it, a, [b])
        if is_intlike(a) and is_intlike(b):
            if isinstance(a, int) and isinstance(b, int):
                if b == 0:
                    it.raise_py('ZeroDivisionError', 'modulo by zero', line)
                return a % b
            if isinstance(b, int) and b > 0:
                return SInt(as_term_int(a) % b)
            raise Unsupported('symbolic modulus')
        if isinstance(a, SAny):
            if it.ctx.branch(PV.is_PStr(a.t), 'isstr@%s' % line):
                return opaque_format(it, SStr(PV.s(a.t)), [b])
        raise Unsupported('%r %% %r' % (a, b))
    if is_concrete(a) and is_concrete(b):
        try:
            if isinstance(op, ast.Sub):
                return a - b
            if isinstance(op, ast.Mult):
                return a * b
            if isinstance(op, ast.FloorDiv):
                return a // b
            if isinstance(op, ast.BitAnd):
                return a & b
            if isinstance(op, ast.BitOr):
                return a | b
            if isinstance(op, ast.Pow):
                return a ** b
            if isinstance(op, ast.LShift):
                return a << b
        except ZeroDivisionError:
            it.raise_py('ZeroDivisionError', 'division by zero', line)
        except TypeError:
            it.raise_py('TypeError', 'unsupported operand types', line)
    if isinstance(op, ast.Sub) and (is_intlike(a) or isinstance(a, SAny)) and (is_intlike(b) or isinstance(b, SAny)):
        return SInt(as_term_int(a) - as_term_int(b))
    if isinstance(op, ast.Mult):
        if isinstance(a, int) or isinstance(b, int):
            if is_intlike(a) and is_intlike(b):
                return SInt(as_term_int(a) * as_term_int(b))
        if isinstance(a, tuple) and isinstance(b, int):
            return a * b
    raise Unsupported('binary operator %s on %r, %r' % (type(op).__name__, a, b))


def add_any(it, a, b, line):
    """+ where at least one operand is untyped: dispatch on the dynamic type."""
    ctx = it.ctx
    x = a if isinstance(a, SAny) else b
    t = x.t
    other = b if x is a else a

    def as_kind(kind):
        if kind == 'int':
            return SInt(PV.i(t))
        if kind == 'str':
            return SStr(PV.s(t))
        if kind == 'tuple':
            return VSeqIter(PV.titems(t))
        if kind == 'list':
            return VList(seq=PV.litems(t))
    kinds = [('int', PV.is_PInt), ('str', PV.is_PStr), ('tuple', PV.is_PTuple), ('list', PV.is_PList)]
    # restrict by the other operand when it is typed
    if is_intlike(other):
        kinds = kinds[:1]
    elif is_strlike(other):
        kinds = kinds[1:2]
    elif isinstance(other, (tuple, VSeqIter)):
        kinds = kinds[2:3]
    elif isinstance(other, VList):
        kinds = kinds[3:4]
    for kind, rec in kinds:
        if ctx.branch(rec(t), 'is%s@%s' % (kind, line)):
            xv = as_kind(kind)
            if isinstance(other, SAny):
                ot = other.t
                if not ctx.branch(rec(ot), 'is%s2@%s' % (kind, line)):
                    it.raise_py('TypeError', 'unsupported operand types for +', line)
                ov = {'int': lambda: SInt(PV.i(ot)), 'str': lambda: SStr(PV.s(ot)),
                      'tuple': lambda: VSeqIter(PV.titems(ot)), 'list': lambda: VList(seq=PV.litems(ot))}[kind]()
            else:
                ov = other
            return binop(it, ast.Add(), xv, ov, line) if x is a else binop(it, ast.Add(), ov, xv, line)
    it.raise_py('TypeError', 'unsupported operand types for +', line)


def opaque_format(it, fmt, args):
    tag = as_term_str(fmt) if not isinstance(fmt, str) else z3.StringVal(fmt)
    try:
        seq = pv.seq_of([lift(a) for a in args])
    except Unsupported:
        seq = pv.EMPTY_SEQ
    r = py_format(tag, seq)
    if isinstance(fmt, str):
        import re as _re
        if _re.sub(r'%[-0-9.]*[sdr]', '', fmt).strip():
            it.ctx.assume(z3.Length(r) > 0)      # literal text of the format string survives formatting
    return SStr(r)


# --------------------------------------------------------------------------
# str / int conversions

def to_str(it, v):
    if is_concrete(v) and not isinstance(v, tuple):
        return str(v)
    if isinstance(v, SStr):
        return v
    if isinstance(v, SInt):
        # CPython: str(int) is the decimal numeral; z3 IntToStr covers n >= 0
        return SStr(z3.If(v.t >= 0, z3.IntToStr(v.t), z3.Concat(z3.StringVal('-'), z3.IntToStr(-v.t))))
    if isinstance(v, VObj):
        if v.strval is not None:
            return v.strval
        m = it.getattr(v, '__str__', default=None)
        if m is not None and not isinstance(m, VBuiltin):
            return it.call_value(m, [], {})
        return SStr(py_str(lift(v)))
    if isinstance(v, SAny):
        t = v.t
        return SStr(z3.If(PV.is_PStr(t), PV.s(t),
                    z3.If(z3.And(PV.is_PInt(t), PV.i(t) >= 0), z3.IntToStr(PV.i(t)), py_str(t))))
    return SStr(py_str(lift(v)))


def is_decimal(s):
    """s matches -?[0-9]+ ."""
    digits = z3.Plus(z3.Range('0', '9'))
    return z3.InRe(s, z3.Concat(z3.Option(z3.Re('-')), digits))


def to_int(it, args, line=None):
    v = args[0]
    if len(args) == 2:
        base = args[1]
        if isinstance(v, str) and isinstance(base, int):
            try:
                return int(v, base)
            except ValueError:
                it.raise_py('ValueError', 'invalid literal for int()', line)
        s = as_term_str(v)
        bt = as_term_int(base)
        ok = valid_in_base(s, base)
        if not it.spec() and not it.ctx.branch(ok, 'intbase@%s' % line):
            it.raise_py('ValueError', 'invalid literal for int() with base', line)
        it.ctx.note('int(s, base): CPython conversion trusted (uninterpreted py_int_base, non-negative for valid digits)')
        r = py_int_base(s, bt)
        it.ctx.assume(r >= 0)
        return SInt(r)
    if isinstance(v, bool):
        return int(v)
    if isinstance(v, int):
        return v
    if isinstance(v, SInt):
        return v
    if isinstance(v, str):
        try:
            return int(v)
        except ValueError:
            it.raise_py('ValueError', 'invalid literal for int()', line)
    if isinstance(v, SAny):
        if it.spec():
            return SInt(z3.If(PV.is_PInt(v.t), PV.i(v.t), py_int(PV.s(v.t))))
        if it.ctx.branch(PV.is_PInt(v.t), 'isint@%s' % line):
            return SInt(PV.i(v.t))
        if it.ctx.branch(PV.is_PStr(v.t), 'isstr@%s' % line):
            v = SStr(PV.s(v.t))
        else:
            it.raise_py('TypeError', 'int() argument must be a string or a number', line)
    if isinstance(v, SStr):
        ok = is_decimal(v.t)
        if not it.spec() and not it.ctx.branch(ok, 'intstr@%s' % line):
            # CPython also accepts surrounding blanks, '+', '_' and non-ASCII digits: not modelled (raise branch only)
            it.ctx.note('int(str): only -?[0-9]+ is modelled as convertible; other accepted spellings treated as ValueError')
            it.raise_py('ValueError', 'invalid literal for int()', line)
        it.ctx.note('int(str): CPython decimal conversion trusted (py_int)')
        r = py_int(v.t)
        return SInt(r)
    if v is None or isinstance(v, (tuple, VList, VDict)):
        it.raise_py('TypeError', 'int() argument must be a string or a number', line)
    raise Unsupported('int(%r)' % (v,))


def valid_in_base(s, base):
    if isinstance(base, int):
        if base == 2:
            digs = z3.Range('0', '1')
        elif base == 16:
            digs = z3.Union(z3.Range('0', '9'), z3.Range('a', 'f'), z3.Range('A', 'F'))
        elif base == 10:
            digs = z3.Range('0', '9')
        else:
            raise Unsupported('int() base %r' % base)
        return z3.InRe(s, z3.Plus(digs))
    raise Unsupported('symbolic base')


# --------------------------------------------------------------------------
# methods of built-in types

def call_method(it, base, name, args, kwargs, line=None):
    ctx = it.ctx
    if isinstance(base, SAny) and not it.spec():
        t = base.t
        if name in ('append', 'extend') and getattr(base, 'origin', None) is not None:
            # list stored (by value) in a symbolic dict and mutated through the lookup: write back
            d, k = base.origin
            if not ctx.branch(PV.is_PList(t), 'islist@%s' % line):
                it.raise_py('AttributeError', name, line)
            add = z3.Unit(lift(args[0])) if name == 'append' else it.seq_term(args[0], line)
            dict_store(it, d, k, SAny(PV.PList(z3.Concat(PV.litems(t), add))))
            return None
        if name == 'remove' and getattr(base, 'origin', None) is not None:
            # list stored (by value) in a symbolic dict: remove the first occurrence, write the shorter list back.
            # The result is characterised by: one element shorter, every element is an element of the old list
            # (which occurrence goes is not modelled: over-approximation).
            d, k = base.origin
            if not ctx.branch(PV.is_PList(t), 'islist@%s' % line):
                it.raise_py('AttributeError', name, line)
            old = PV.litems(t)
            if not ctx.branch(z3.Contains(old, z3.Unit(lift(args[0]))), 'list.remove@%s' % line):
                it.raise_py('ValueError', 'list.remove(x): x not in list', line)
            new = ctx.fresh(pv.PVSeq, 'removed')
            qi = z3.Const('q.ri.6', z3.IntSort())
            qj = z3.Const('q.rj.6', z3.IntSort())
            ctx.assume(z3.Length(new) == z3.Length(old) - 1)
            ctx.assume(z3.ForAll([qi], z3.Implies(z3.And(qi >= 0, qi < z3.Length(new)),
                                                  z3.Exists([qj], z3.And(qj >= 0, qj < z3.Length(old), new[qi] == old[qj])))))
            ctx.note('list.remove on a list held in a symbolic dict: which occurrence is removed is not modelled')
            dict_store(it, d, k, SAny(PV.PList(new)))
            return None
        if name in STR_METHODS and name not in LIST_METHODS and name not in DICT_METHODS:
            if ctx.branch(PV.is_PStr(t), 'isstr@%s' % line):
                return call_method(it, SStr(PV.s(t)), name, args, kwargs, line)
            it.raise_py('AttributeError', name, line)
        if name in ('get', 'items', 'keys', 'values'):
            if ctx.branch(PV.is_PDict(t), 'isdict@%s' % line):
                return any_dict_method(it, t, name, args, kwargs, line, base)
            it.raise_py('AttributeError', name, line)
        if name in ('count', 'index'):
            if ctx.branch(PV.is_PStr(t), 'isstr@%s' % line):
                return call_method(it, SStr(PV.s(t)), name, args, kwargs, line)
        raise Unsupported('method %s on an untyped value at line %s' % (name, line))
    if isinstance(base, SAny) and it.spec():
        t = base.t
        if name in STR_METHODS:
            return call_method(it, SStr(PV.s(t)), name, args, kwargs, line)
        if name in ('get',):
            return any_dict_method(it, t, name, args, kwargs, line)
        raise Unsupported('spec: method %s on an untyped value' % name)
    if isinstance(base, (str, SStr)):
        return str_method(it, base, name, args, kwargs, line)
    if isinstance(base, VList):
        return list_method(it, base, name, args, kwargs, line)
    if isinstance(base, VDict):
        return dict_method(it, base, name, args, kwargs, line)
    if isinstance(base, VSet):
        return set_method(it, base, name, args, kwargs, line)
    if isinstance(base, tuple):
        if name == 'count':
            return sum(1 for x in base if veq(x, args[0]) is True)
        if name == 'index':
            for i, x in enumerate(base):
                if veq(x, args[0]) is True:
                    return i
            it.raise_py('ValueError', 'tuple.index(x): x not in tuple', line)
    if isinstance(base, bytes):
        if name == 'decode':
            return base.decode(*[a for a in args if isinstance(a, str)])
    if isinstance(base, VFunc):
        pass
    if base is None:
        it.raise_py('AttributeError', "'NoneType' object has no attribute '%s'" % name, line)
    if isinstance(base, (int, SInt, bool, SBool)):
        it.raise_py('AttributeError', "'int' object has no attribute '%s'" % name, line)
    if isinstance(base, VSeqIter):
        if name == 'count' or name == 'index':
            raise Unsupported('tuple.%s on symbolic tuple' % name)
        it.raise_py('AttributeError', name, line)
    raise Unsupported('method %s of %r at line %s' % (name, base, line))


STR_METHODS = {'replace', 'startswith', 'endswith', 'find', 'split', 'join', 'upper', 'lower', 'count', 'strip',
               'encode', 'isdigit', 'splitlines', 'rstrip', 'lstrip', 'format', 'decode', 'capitalize', 'title'}
LIST_METHODS = {'append', 'extend', 'pop', 'insert', 'remove', 'sort', 'index', 'copy', 'count', 'reverse'}
DICT_METHODS = {'get', 'items', 'keys', 'values', 'update', 'copy', 'pop', 'setdefault', 'clear'}


def str_method(it, s, name, args, kwargs, line=None):
    conc = isinstance(s, str) and all(is_concrete(a) for a in args)
    if conc and name in ('replace', 'startswith', 'endswith', 'find', 'upper', 'lower', 'count', 'strip', 'isdigit',
                         'rstrip', 'lstrip', 'capitalize', 'title', 'encode', 'splitlines'):
        r = getattr(s, name)(*args)
        return r
    if conc and name == 'split':
        return newlist(s.split(*args))
    st = as_term_str(s)
    if name == 'replace':
        a, b = as_term_str(args[0]), as_term_str(args[1])
        it.ctx.note('str.replace: trusted as the uninterpreted py_replace(s, old, new)')
        replace_facts(it, st, args[0], args[1])
        return SStr(py_replace(st, a, b))
    if name == 'startswith':
        return mkbool(z3.PrefixOf(as_term_str(args[0]), st))
    if name == 'endswith':
        return mkbool(z3.SuffixOf(as_term_str(args[0]), st))
    if name == 'find':
        return SInt(z3.IndexOf(st, as_term_str(args[0]), 0))
    if name == 'upper':
        it.ctx.note('str.upper/lower: uninterpreted (py_upper/py_lower), ASCII idempotence facts only')
        return SStr(py_upper(st))
    if name == 'lower':
        it.ctx.note('str.upper/lower: uninterpreted (py_upper/py_lower), ASCII idempotence facts only')
        return SStr(py_lower(st))
    if name == 'count':
        return SInt(py_count(st, as_term_str(args[0])))
    if name == 'strip':
        return SStr(py_strip(st))
    if name == 'split':
        if not args:
            raise Unsupported('str.split() on a symbolic string')
        it.ctx.note('str.split / str.join: trusted as uninterpreted py_split / py_join')
        r = py_split(st, as_term_str(args[0]))
        it.ctx.assume(z3.Length(r) >= 1)
        return VList(seq=r)
    if name == 'join':
        arg = args[0]
        items = concrete_items(it, arg)
        if items is not None and isinstance(s, str) and all(isinstance(x, str) for x in items):
            return s.join(items)
        if items is not None and all(is_strlike(x) for x in items):
            if not items:
                return ''
            parts = []
            for i, x in enumerate(items):
                if i:
                    parts.append(st)
                parts.append(as_term_str(x))
            return SStr(z3.Concat(*parts)) if len(parts) > 1 else SStr(parts[0])
        it.ctx.note('str.split / str.join: trusted as uninterpreted py_split / py_join')
        if isinstance(arg, (VDict, VKeys)) and arg.arr is not None:
            return SStr(py_join(st, pv.members_facts(it.ctx, arg.arr, False)))
        if isinstance(arg, VSet):
            return SStr(py_join(st, pv.members_facts(it.ctx, arg.to_arr(), True)))
        return SStr(py_join(st, it.seq_term(arg, line)))
    if name == 'encode':
        return SAny(PV.PBytes(py_encode(st)))
    if name == 'format':
        return opaque_format(it, s, args)
    if not hasattr('', name):
        it.raise_py('AttributeError', "'str' object has no attribute %r" % name, line)
    raise Unsupported('str.%s' % name)


def list_extend(it, l, other):
    it.mutating(l)
    items = concrete_items(it, other)
    if items is not None and not l.symbolic:
        l.items.extend(items)
        return
    if isinstance(other, VKeys):
        _unsupported('extend by key view')
    oel = getattr(other, 'elem', 'any') if isinstance(other, VSeqIter) or (isinstance(other, VList) and other.symbolic) else 'any'
    if l.symbolic and l.elem == 'str' and oel == 'str':
        l.seq = z3.Concat(l.seq, other.seq)
        return
    if not l.symbolic and not l.items and oel == 'str':
        l.items = None
        l.seq, l.elem = other.seq, 'str'
        return
    if l.symbolic and l.elem != 'any':
        l.seq, l.elem = l.to_seq(), 'any'
    l.make_symbolic()
    l.seq = z3.Concat(l.seq, it.seq_term(other))


def _unsupported(msg):
    raise Unsupported(msg)


def list_method(it, l, name, args, kwargs, line=None):
    ctx = it.ctx
    if name == 'append':
        it.mutating(l)
        if not l.symbolic:
            l.items.append(args[0])
        else:
            et = pv.elem_term(l, args[0])
            if et is None:
                l.seq, l.elem = l.to_seq(), 'any'
                et = lift(args[0])
            l.seq = z3.Concat(l.seq, z3.Unit(et))
        return None
    if name == 'extend':
        list_extend(it, l, args[0])
        return None
    if name == 'pop':
        it.mutating(l)
        idx = args[0] if args else -1
        if not l.symbolic:
            if not l.items:
                it.raise_py('IndexError', 'pop from empty list', line)
            return l.items.pop(idx)
        n = z3.Length(l.seq)
        if not ctx.branch(n > 0, 'pop@%s' % line):
            it.raise_py('IndexError', 'pop from empty list', line)
        if idx == 0:
            v = pv.elem_value(l, l.seq[0])
            l.seq = z3.SubSeq(l.seq, 1, n - 1)
            return v
        if idx == -1:
            v = pv.elem_value(l, l.seq[n - 1])
            l.seq = z3.SubSeq(l.seq, 0, n - 1)
            return v
        raise Unsupported('list.pop(%r) on a symbolic list' % (idx,))
    if name == 'insert':
        it.mutating(l)
        if not l.symbolic and isinstance(args[0], int):
            l.items.insert(args[0], args[1])
            return None
        if args[0] == 0:
            l.make_symbolic()
            et = pv.elem_term(l, args[1])
            if et is None:
                l.seq, l.elem = l.to_seq(), 'any'
                et = lift(args[1])
            l.seq = z3.Concat(z3.Unit(et), l.seq)
            return None
        raise Unsupported('list.insert on a symbolic list')
    if name == 'remove':
        it.mutating(l)
        if not l.symbolic:
            for i, x in enumerate(l.items):
                e = veq(x, args[0])
                if e is True:
                    del l.items[i]
                    return None
                if e is not False:
                    raise Unsupported('list.remove with symbolic equality')
            it.raise_py('ValueError', 'list.remove(x): x not in list', line)
        # symbolic list: either x is not an element (ValueError) or some list one element shorter results; which
        # elements stay, and in which order, is not modelled (over-approximation: any contents)
        et = pv.elem_term(l, args[0])
        if et is None or not ctx.branch(z3.Contains(l.seq, z3.Unit(et)), 'list.remove@%s' % line):
            it.raise_py('ValueError', 'list.remove(x): x not in list', line)
        n0 = z3.Length(l.seq)
        l.seq = ctx.fresh(l.seq.sort(), 'removed')
        ctx.assume(z3.Length(l.seq) == n0 - 1)
        ctx.note('list.remove on a symbolic list: contents of the result are left unconstrained')
        return None
    if name == 'copy':
        return VList(list(l.items)) if not l.symbolic else VList(seq=l.seq, elem=l.elem)
    if name == 'index':
        if not l.symbolic:
            for i, x in enumerate(l.items):
                if veq(x, args[0]) is True:
                    return i
            it.raise_py('ValueError', 'x not in list', line)
    if name == 'sort':
        it.mutating(l)
        if not l.symbolic and all(is_concrete(x) for x in l.items) and not kwargs:
            l.items.sort()
            return None
        raise Unsupported('list.sort on symbolic data')
    if name == 'count':
        if not l.symbolic:
            return sum(1 for x in l.items if veq(x, args[0]) is True)
    raise Unsupported('list.%s' % name)


def dict_method(it, d, name, args, kwargs, line=None):
    ctx = it.ctx
    if name == 'get':
        k = args[0]
        dflt = args[1] if len(args) > 1 else None
        if not d.symbolic and dict_key_ok(k):
            return d.vals.get(k, dflt)
        if not d.symbolic:
            if it.spec():
                v = dict_load(it, d, k, line)
                return ite(it, lift(v) == pv.PAbsent, dflt, v) if isinstance(v, SAny) else v
            for kk in d.keys:
                e = veq(k, kk)
                if e is True or (e is not False and ctx.branch(e.t, 'key==%r@%s' % (kk, line))):
                    return d.vals[kk]
            return dflt
        v = d.arr[pv.kenc(k)]
        return lower(z3.If(v == pv.PAbsent, lift(dflt), v))
    if name in ('items', 'keys', 'values'):
        if not d.symbolic:
            if name == 'items':
                return newlist([(k, d.vals[k]) for k in d.keys])
            if name == 'keys':
                return newlist(list(d.keys))
            return newlist([d.vals[k] for k in d.keys])
        if name == 'keys':
            return VKeys(d.arr)
        v = VKeys(d.arr)
        v.view = name
        return v
    if name == 'copy':
        if not d.symbolic:
            n = VDict()
            n.ordered_cls = d.ordered_cls
            n.keys = list(d.keys)
            n.vals = dict(d.vals)
            return n
        return VDict(arr=d.arr)
    if name == 'update':
        dict_update(it, d, args[0] if args else None, kwargs)
        return None
    if name == 'clear':
        it.mutating(d)
        if not d.symbolic:
            d.keys, d.vals = [], {}
        else:
            d.arr = pv.EMPTY_ARR
        return None
    if name == 'pop':
        k = args[0]
        if not d.symbolic and dict_key_ok(k):
            if k in d.vals:
                v = d.vals[k]
                dict_delete(it, d, k, line)
                return v
            if len(args) > 1:
                return args[1]
            it.raise_py('KeyError', repr(k), line)
        if not d.symbolic:
            d.make_symbolic()
        it.mutating(d)
        v = d.arr[pv.kenc(k)]
        if ctx.branch(v != pv.PAbsent, 'popkey@%s' % line):
            d.arr = z3.Store(d.arr, pv.kenc(k), pv.PAbsent)
            return lower(v)
        if len(args) > 1:
            return args[1]
        it.raise_py('KeyError', 'key', line)
    if name == 'setdefault':
        k = args[0]
        c = dict_contains(it, d, k)
        if it.test(c):
            return dict_load(it, d, k, line)
        dict_store(it, d, k, args[1] if len(args) > 1 else None)
        return args[1] if len(args) > 1 else None
    raise Unsupported('dict.%s' % name)


def taint(v, src):
    """values obtained from inside a value that lives in a container keep a reference to that container: an
    in-place extension of such a (possibly shared) list is a frame violation the by-value model cannot express"""
    sf = getattr(src, 'shared_from', None)
    if sf is not None and isinstance(v, SAny):
        v.shared_from = sf
    return v


def any_dict_method(it, t, name, args, kwargs, line, src=None):
    if name == 'get':
        v = PV.dvals(t)[pv.kenc(args[0])]
        dflt = args[1] if len(args) > 1 else None
        return taint(lower(z3.If(v == pv.PAbsent, lift(dflt), v)), src)
    if name == 'keys':
        return VSeqIter(PV.dkeys(t), 'list')
    raise Unsupported('method %s on an untyped dict value' % name)


def set_add(it, s, x):
    it.mutating(s)
    if not s.symbolic:
        if is_concrete(x):
            if x not in s.elems:
                s.elems.append(x)
            return
        s.make_symbolic()
    s.arr = z3.Store(s.arr, pv.kenc(x), z3.BoolVal(True))


def set_method(it, s, name, args, kwargs, line=None):
    ctx = it.ctx
    if name == 'add':
        set_add(it, s, args[0])
        return None
    if name == 'update':
        items = concrete_items(it, args[0])
        if items is None:
            # union with the elements of a sequence of symbolic length
            other = args[0]
            it.mutating(s)
            s.make_symbolic()
            if isinstance(other, VSet):
                s.arr = z3.SetUnion(s.arr, other.to_arr())
            else:
                seq = other.seq if isinstance(other, (VList, VSeqIter)) and getattr(other, 'seq', None) is not None \
                    else it.seq_term(other, line)
                s.arr = z3.SetUnion(s.arr, members_of(ctx, seq))
            return None
        for x in items:
            set_add(it, s, x)
        return None
    if name == 'clear':
        it.mutating(s)
        if not s.symbolic:
            s.elems = []
        else:
            s.arr = pv.EMPTY_SET
        return None
    if name == 'copy':
        return VSet(list(s.elems)) if not s.symbolic else VSet(arr=s.arr)
    if name == 'issuperset' and concrete_items(it, args[0]) is None:
        other = args[0]
        if isinstance(other, VSet):
            k_ = z3.Const('q.ss.2', z3.StringSort())
            return mkbool(z3.ForAll([k_], z3.Implies(other.to_arr()[k_], s.to_arr()[k_])))
        seq = other.seq if isinstance(other, (VList, VSeqIter)) and getattr(other, 'seq', None) is not None else it.seq_term(other, line)
        typed = seq.sort() != pv.PVSeq
        qi = z3.Const('q.ss.2', z3.IntSort())
        key_ = (lambda t: t) if typed else pv.kenc_t
        return mkbool(z3.ForAll([qi], z3.Implies(z3.And(qi >= 0, qi < z3.Length(seq)), s.to_arr()[key_(seq[qi])])))
    if name == 'issuperset':
        other = args[0]
        items = concrete_items(it, other)
        if items is not None:
            terms = []
            for x in items:
                e = contains(it, s, x, line)
                if e is False:
                    return False
                if e is not True:
                    terms.append(e.t)
            return mkbool(z3.And(*terms)) if terms else True
        oth = other.to_arr() if isinstance(other, VSet) else None
        if oth is None:
            k = it.ctx.fresh(PV, 'k')
            seq = it.seq_term(other, line)
            return mkbool(z3.ForAll([k], z3.Implies(z3.Contains(seq, z3.Unit(k)), s.to_arr()[pv.kenc_t(k)])))
        k = it.ctx.fresh(z3.StringSort(), 'k')
        return mkbool(z3.ForAll([k], z3.Implies(oth[k], s.to_arr()[k])))
    raise Unsupported('set.%s' % name)


# --------------------------------------------------------------------------
# comprehensions

def comprehension(it, e, env, kind):
    from .interp import Env
    gens = e.generators
    first = it.eval(gens[0].iter, env)
    items = concrete_items(it, first)
    if items is None:
        return mapped_sequence(it, e, env, kind, first)
    out = []

    def rec(gi, cenv):
        if gi == len(gens):
            if kind == 'dict':
                out.append((it.eval(e.key, cenv), it.eval(e.value, cenv)))
            else:
                out.append(it.eval(e.elt, cenv))
            return
        g = gens[gi]
        coll = it.eval(g.iter, cenv) if gi else first
        its = concrete_items(it, coll)
        if its is None:
            raise Unsupported('nested comprehension over a symbolic collection')
        for x in its:
            it.assign(g.target, x, cenv)
            if all(it.test(it.eval(c, cenv)) for c in g.ifs):
                rec(gi + 1, cenv)
    cenv = Env(parent=env)
    rec(0, cenv)
    if kind in ('list', 'gen'):
        return newlist(out)
    if kind == 'set':
        s = VSet([])
        for x in out:
            set_add(it, s, x)
        return s
    d = VDict()
    for k, v in out:
        dict_store(it, d, k, v)
    return d


def filtered_sequence(it, e, env, coll):
    """[x for x in xs if c(x)] over the keys of a symbolic dict or a list of strings: a fresh list r with
    x in r  <=>  x in xs and c(x)   (plus a witness fact for non-emptiness); order and multiplicity are
    left unspecified."""
    from .interp import Env
    ctx = it.ctx
    gen = e.generators[0]
    selects_elements = isinstance(gen.target, ast.Name) and isinstance(e.elt, ast.Name) and e.elt.id == gen.target.id
    plain_keys = isinstance(coll, (VDict, VKeys)) and getattr(coll, 'view', 'keys') == 'keys'
    str_list = isinstance(coll, (VList, VSeqIter)) and getattr(coll, 'elem', 'any') == 'str'
    values_view = isinstance(coll, VKeys) and getattr(coll, 'view', 'keys') == 'values'
    if not (selects_elements and (plain_keys or str_list or values_view)):
        return filtered_general(it, e, env, coll)
    k = ctx.fresh(z3.StringSort(), gen.target.id)
    if isinstance(coll, VKeys) and getattr(coll, 'view', 'keys') == 'values':
        # [v for v in d.values() if c(v)]: the selected VALUES.  r[i] = d[key_of(i)] with c(r[i]); every value that
        # satisfies c occurs in r; order and multiplicity unspecified.
        arr = coll.arr
        cenv = Env(parent=env)
        cenv.set(gen.target.id, SAny(arr[k]))
        ctx.spec_depth += 1
        try:
            conds = [pv.as_term_bool(truthy(it.eval(c, cenv))) for c in gen.ifs]
        finally:
            ctx.spec_depth -= 1
        cond = z3.And(*conds) if len(conds) > 1 else conds[0]
        r = ctx.fresh(pv.PVSeq, 'filtv')
        ctx.nfresh += 1
        key_of = z3.Function('key_of!%d' % ctx.nfresh, z3.IntSort(), z3.StringSort())
        qi = z3.Const('q.fi.3', z3.IntSort())
        qj = z3.Const('q.fj.3', z3.IntSort())
        ctx.assume(z3.ForAll([qi], z3.Implies(z3.And(qi >= 0, qi < z3.Length(r)),
                                              z3.And(arr[key_of(qi)] != pv.PAbsent, r[qi] == arr[key_of(qi)],
                                                     z3.substitute(cond, (k, key_of(qi)))))))
        ctx.assume(z3.ForAll([k], z3.Implies(z3.And(arr[k] != pv.PAbsent, cond),
                                             z3.Exists([qj], z3.And(qj >= 0, qj < z3.Length(r), r[qj] == arr[k])))))
        ctx.note('filtered comprehension over the values of a symbolic dict encoded by its selection predicate '
                 '(order and multiplicity unspecified)')
        return VList(seq=r)
    if isinstance(coll, (VDict, VKeys)):
        if getattr(coll, 'view', 'keys') == 'items':
            raise Unsupported('filtered comprehension over dict.items() of a symbolic dict')
        arr = coll.to_arr() if isinstance(coll, VDict) else coll.arr
        dom = lambda x: arr[x] != pv.PAbsent
    elif isinstance(coll, (VList, VSeqIter)) and getattr(coll, 'elem', 'any') == 'str':
        dom = lambda x: z3.Contains(coll.seq, z3.Unit(x))
    else:
        raise Unsupported('filtered comprehension over %r' % (coll,))
    cenv = Env(parent=env)
    cenv.set(gen.target.id, SStr(k))
    ctx.spec_depth += 1
    try:
        conds = [pv.as_term_bool(truthy(it.eval(c, cenv))) for c in gen.ifs]
    finally:
        ctx.spec_depth -= 1
    cond = z3.And(*conds) if len(conds) > 1 else conds[0]
    r = ctx.fresh(z3.SeqSort(z3.StringSort()), 'filt')
    ctx.assume(z3.ForAll([k], z3.Contains(r, z3.Unit(k)) == z3.And(dom(k), cond)))
    ctx.assume(z3.Implies(z3.Length(r) > 0, z3.And(dom(r[0]), z3.substitute(cond, (k, r[0])))))
    ctx.note('filtered comprehension over a symbolic collection encoded by its membership predicate '
             '(order and multiplicity unspecified)')
    return VList(seq=r, elem='str')


def filtered_general(it, e, env, coll):
    """[f(x) for x in xs if c(x)] over the keys / values / items of a symbolic dict or over a sequence of symbolic
    length: a fresh list r with   r[j] = f(x_src(j)), c(x_src(j))   for every position j, and every source element
    that satisfies c contributes an element.  Order and multiplicity are left unspecified (Python keeps the order of
    the source: obligations that depend on it cannot be proved from this encoding, they are not falsely discharged)."""
    from .interp import Env
    ctx = it.ctx
    gen = e.generators[0]
    ctx.nfresh += 1
    if isinstance(coll, (VDict, VKeys)):
        arr = coll.to_arr() if isinstance(coll, VDict) else coll.arr
        view = getattr(coll, 'view', 'keys')
        idx = ctx.fresh(z3.StringSort(), 'fk')
        src_of = z3.Function('src_of!%d' % ctx.nfresh, z3.IntSort(), z3.StringSort())
        dom = lambda x: arr[x] != pv.PAbsent
        elem = lambda x: SStr(x) if view == 'keys' else (SAny(arr[x]) if view == 'values' else (SStr(x), SAny(arr[x])))
    elif isinstance(coll, (VList, VSeqIter, SAny, tuple)):
        typed = isinstance(coll, VSeqIter) or (isinstance(coll, VList) and coll.symbolic)
        seq = coll.seq if typed else it.seq_term(coll, getattr(e, 'lineno', None))
        owner = coll if typed else None
        idx = ctx.fresh(z3.IntSort(), 'fi')
        src_of = z3.Function('src_of!%d' % ctx.nfresh, z3.IntSort(), z3.IntSort())
        dom = lambda x: z3.And(x >= 0, x < z3.Length(seq))
        elem = lambda x: pv.elem_value(owner, seq[x]) if owner is not None else lower(seq[x])
    else:
        raise Unsupported('filtered comprehension over %r' % (coll,))
    cenv = Env(parent=env)
    it.assign(gen.target, elem(idx), cenv)
    ctx.spec_depth += 1
    try:
        conds = [pv.as_term_bool(truthy(it.eval(c, cenv))) for c in gen.ifs]
        out = lift(it.eval(e.elt, cenv))
    finally:
        ctx.spec_depth -= 1
    cond = z3.And(*conds) if len(conds) > 1 else (conds[0] if conds else z3.BoolVal(True))
    r = ctx.fresh(pv.PVSeq, 'filtg')
    qj = z3.Const('q.gj.3', z3.IntSort())
    at = lambda t, x: z3.substitute(t, (idx, x))
    ctx.assume(z3.ForAll([qj], z3.Implies(z3.And(qj >= 0, qj < z3.Length(r)),
                                          z3.And(dom(src_of(qj)), at(cond, src_of(qj)), r[qj] == at(out, src_of(qj))))))
    ctx.assume(z3.ForAll([idx], z3.Implies(z3.And(dom(idx), cond),
                                           z3.Exists([qj], z3.And(qj >= 0, qj < z3.Length(r), r[qj] == out)))))
    ctx.note('filtered / mapped comprehension over a symbolic collection encoded by its selection predicate '
             '(order and multiplicity unspecified)')
    return VList(seq=r)


def mapped_sequence(it, e, env, kind, coll):
    """[f(x) for x in xs] over a sequence of symbolic length: seq.map(lambda x. f(x), xs) - no unrolling.
    The bound variable has a canonical name per nesting depth, so the same comprehension evaluated twice
    (code and specification) yields the identical term."""
    from .interp import Env
    if kind in ('list', 'gen') and len(e.generators) == 1 and e.generators[0].ifs:
        return filtered_sequence(it, e, env, coll)
    if kind not in ('list', 'gen') or len(e.generators) != 1:
        raise Unsupported('comprehension over a symbolic collection (only single-generator lists are supported)')
    ctx = it.ctx
    typed = isinstance(coll, VSeqIter) or (isinstance(coll, VList) and coll.symbolic)
    seq = coll.seq if typed else it.seq_term(coll, getattr(e, 'lineno', None))
    el = coll.elem if typed else 'any'
    depth = getattr(it, 'map_depth', 0)
    xv = z3.Const('map.x%d' % depth, z3.StringSort() if el == 'str' else PV)
    cenv = Env(parent=env)
    owner = coll if typed else None
    it.assign(e.generators[0].target, pv.elem_value(owner, xv) if owner is not None else lower(xv), cenv)
    ctx.spec_depth += 1
    it.map_depth = depth + 1
    try:
        elt = it.eval(e.elt, cenv)
    finally:
        ctx.spec_depth -= 1
        it.map_depth = depth
    ctx.note('comprehension over a sequence of symbolic length encoded as seq.map (element expression evaluated '
             'as a total function; a raising element expression is not modelled)')
    if isinstance(elt, (str, SStr)):
        body = as_term_str(elt)
        if z3.eq(z3.simplify(body), xv) and el == 'str':
            return VList(seq=seq, elem='str')
        return VList(seq=z3.SeqMap(z3.Lambda([xv], body), seq), elem='str')
    return VList(seq=z3.SeqMap(z3.Lambda([xv], lift(elt)), seq))


# --------------------------------------------------------------------------
# builtin names

class TypeMarker:
    def __init__(self, name):
        self.name = name

    def __repr__(self):
        return 'type<%s>' % self.name


TYPE_MARKERS = {n: TypeMarker(n) for n in ('str', 'int', 'tuple', 'list', 'dict', 'bool', 'bytes', 'set', 'object',
                                           'float', 'type')}


def isinstance_one(it, v, T):
    """bool or SBool: isinstance(v, T) for a single type T."""
    if isinstance(T, VClass):
        if isinstance(v, VObj):
            return it.obj_isa(v, T.name)
        if isinstance(v, SAny):
            names = subclasses_of(it, T.name)
            return mkbool(z3.And(PV.is_PObj(v.t), z3.Or(*[PV.cls(v.t) == z3.StringVal(n) for n in names])))
        return False
    if isinstance(T, VBuiltin) and T.name in TYPE_MARKERS:
        T = TYPE_MARKERS[T.name]
    if not isinstance(T, TypeMarker):
        raise Unsupported('isinstance with %r' % (T,))
    n = T.name
    if n == 'object':
        return True
    if isinstance(v, SAny):
        t = v.t
        rec = {'str': z3.Or(PV.is_PStr(t), z3.And(PV.is_PObj(t), PV.is_PStr(PV.sval(t)))),
               'int': z3.Or(PV.is_PInt(t), PV.is_PBool(t)), 'bool': PV.is_PBool(t),
               'tuple': PV.is_PTuple(t), 'list': PV.is_PList(t), 'dict': PV.is_PDict(t), 'set': PV.is_PSet(t),
               'bytes': PV.is_PBytes(t), 'float': z3.BoolVal(False)}.get(n)
        if rec is None:
            raise Unsupported('isinstance(_, %s)' % n)
        return mkbool(rec)
    table = {'str': (str, SStr), 'int': (int, SInt, SBool), 'bool': (bool, SBool), 'tuple': (tuple, VSeqIter),
             'list': (VList,), 'dict': (VDict,), 'set': (VSet,), 'bytes': (bytes,), 'float': ()}
    if n == 'str' and isinstance(v, VObj) and v.strval is not None:
        return True
    if n == 'tuple' and isinstance(v, VSeqIter):
        return v.kind == 'tuple'
    return isinstance(v, table.get(n, ()))


def subclasses_of(it, name):
    out = {name}
    changed = True
    par = it.world.exc_parents
    while changed:
        changed = False
        for c, p in par.items():
            if p in out and c not in out:
                out.add(c)
                changed = True
    return sorted(out)


def b_isinstance(it, args, kwargs):
    v, T = args
    Ts = T if isinstance(T, tuple) else (T,)
    terms = []
    for t in Ts:
        r = isinstance_one(it, v, t)
        if r is True:
            return True
        if r is not False:
            terms.append(r.t)
    return mkbool(z3.Or(*terms)) if terms else False


def b_len(it, args, kwargs):
    v = args[0]
    if isinstance(v, (str, tuple, bytes)):
        return len(v)
    if isinstance(v, SStr):
        return SInt(z3.Length(v.t))
    if isinstance(v, VList):
        return v.length()
    if isinstance(v, VSeqIter):
        return SInt(z3.Length(v.seq))
    if isinstance(v, VDict) and not v.symbolic:
        return len(v.keys)
    if isinstance(v, VSet) and not v.symbolic:
        return len(v.elems)
    if isinstance(v, SAny):
        t = v.t
        if it.spec():
            return SInt(z3.If(PV.is_PStr(t), z3.Length(PV.s(t)),
                        z3.If(PV.is_PTuple(t), z3.Length(PV.titems(t)),
                        z3.If(PV.is_PList(t), z3.Length(PV.litems(t)),
                        z3.If(PV.is_PBytes(t), z3.Length(PV.by(t)), z3.Length(PV.dkeys(t)))))))
        for nm, rec, acc in (('str', PV.is_PStr, PV.s), ('tuple', PV.is_PTuple, PV.titems),
                             ('list', PV.is_PList, PV.litems), ('bytes', PV.is_PBytes, PV.by),
                             ('dict', PV.is_PDict, PV.dkeys)):
            if it.ctx.branch(rec(t), 'is%s' % nm):
                return SInt(z3.Length(acc(t)))
        it.raise_py('TypeError', 'object has no len()')
    if v is None or isinstance(v, (int, SInt, bool)):
        it.raise_py('TypeError', 'object has no len()')
    raise Unsupported('len(%r)' % (v,))


def b_str(it, args, kwargs):
    if not args:
        return ''
    return to_str(it, args[0])


def b_int(it, args, kwargs):
    return to_int(it, args)


def b_abs(it, args, kwargs):
    v = args[0]
    if isinstance(v, int):
        return abs(v)
    t = as_term_int(v)
    return SInt(z3.If(t >= 0, t, -t))


def b_bool(it, args, kwargs):
    return truthy(args[0]) if args else False


def b_tuple(it, args, kwargs):
    if not args:
        return ()
    v = args[0]
    items = concrete_items(it, v)
    if items is not None:
        return tuple(items)
    if isinstance(v, VDict):
        return VKeys(v.arr)
    if isinstance(v, VKeys):
        return v
    if isinstance(v, VSeqIter) or (isinstance(v, VList) and v.symbolic):
        return VSeqIter(v.seq, elem=v.elem)
    return VSeqIter(it.seq_term(v))


def b_list(it, args, kwargs):
    if not args:
        return newlist([])
    v = args[0]
    items = concrete_items(it, v)
    if items is not None:
        return newlist(items)
    if isinstance(v, VDict):
        r = VKeys(v.arr)
        r.ctx = it.ctx
        return r
    if isinstance(v, VKeys):
        return v
    if isinstance(v, VSet):
        return VList(seq=pv.members_facts(it.ctx, v.to_arr(), True))
    if isinstance(v, VSeqIter) or (isinstance(v, VList) and v.symbolic):
        r = VList(seq=v.seq, elem=v.elem)
        if hasattr(v, 'wrap'):
            r.wrap = v.wrap             # a copy of a list of protocol components holds the same components
        return r
    return VList(seq=it.seq_term(v))


def b_set(it, args, kwargs):
    s = VSet([])
    if args:
        v = args[0]
        items = concrete_items(it, v)
        if items is not None:
            for x in items:
                set_add(it, s, x)
        elif isinstance(v, VSet):
            return VSet(arr=v.arr)
        else:
            seq = it.seq_term(v)
            s.make_symbolic()
            s.arr = members_of(it.ctx, seq)       # set(l): exactly the elements of l
            s.from_seq = seq
    return s


seq_to_set = seq_elems_pv


def b_dict(it, args, kwargs):
    return make_dict(it, args, kwargs)


def b_getattr(it, args, kwargs):
    obj, name = args[0], args[1]
    if not isinstance(name, str):
        raise Unsupported('getattr with a symbolic name')
    if len(args) > 2:
        return it.getattr(obj, name, None, default=args[2])
    return it.getattr(obj, name)


def b_setattr(it, args, kwargs):
    obj, name, v = args
    if not isinstance(name, str):
        raise Unsupported('setattr with a symbolic name')
    it.setattr(obj, name, v)


def b_hasattr(it, args, kwargs):
    U = _unbound()
    obj, name = args
    if isinstance(obj, SAny):
        return mkbool(z3.And(PV.is_PObj(obj.t), PV.flds(obj.t)[z3.StringVal(name)] != pv.PAbsent))
    from .interp import PyRaise
    try:
        it.getattr(obj, name)
        return True
    except PyRaise:
        return False


def b_sorted(it, args, kwargs):
    v = args[0]
    items = concrete_items(it, v)
    key = kwargs.get('key')
    if items is not None:
        if key is not None:
            keyed = [(it.call_value(key, [x], {}), x) for x in items]
            if all(is_concrete(k) for k, _ in keyed):
                try:
                    keyed.sort(key=lambda kv: kv[0])
                except TypeError:
                    it.raise_py('TypeError', 'unorderable keys')
                return newlist([x for _, x in keyed])
            return symbolic_sort(it, keyed)
        if all(is_concrete(x) for x in items):
            try:
                return newlist(sorted(items))
            except TypeError:
                it.raise_py('TypeError', 'unorderable types')
        return symbolic_sort(it, [(x, x) for x in items])
    if isinstance(v, (VKeys, VDict)) or (isinstance(v, VSet) and v.symbolic):
        if key is not None or kwargs.get('reverse'):
            # sorted(d, key=...): some permutation of exactly the keys (which one is not modelled: obligations proved
            # about a loop over it cannot depend on the visiting order)
            it.ctx.note('sorted(key=) over the keys of a symbolic mapping is modelled as some permutation of the keys '
                        '(assumption A-sorted)')
            arr = v.to_arr() if isinstance(v, (VDict, VSet)) else v.arr
            return VList(seq=pv.members_facts(it.ctx, arr, isinstance(v, VSet)))
        return sorted_members(it, v)
    seq = it.seq_term(v)
    it.ctx.note('sorted() over a sequence of symbolic length is modelled as the sequence itself (some permutation): '
                'obligations proved about a loop over it must not depend on the visiting order (assumption A-sorted)')
    return VList(seq=seq)


def sorted_members(it, v):
    """sorted() over the keys of a symbolically indexed dict / the elements of a symbolic set (strings, assumption
    A-keys): the strictly ascending sequence of exactly the members - a function of the member set alone, whatever
    order iteration would have produced."""
    ctx = it.ctx
    is_set = isinstance(v, VSet)
    arr = v.to_arr() if isinstance(v, (VDict, VSet)) else v.arr
    r = ctx.fresh(z3.SeqSort(z3.StringSort()), 'sorted')
    mem = (lambda k: arr[k]) if is_set else (lambda k: arr[k] != pv.PAbsent)
    i = z3.Const('q.si.5', z3.IntSort())
    j = z3.Const('q.sj.5', z3.IntSort())
    k = z3.Const('q.sk.5', z3.StringSort())
    ctx.assume(z3.ForAll([i], z3.Implies(z3.And(i >= 0, i < z3.Length(r)), mem(r[i]))))
    ctx.assume(z3.ForAll([k], z3.Implies(mem(k), z3.Exists([j], z3.And(j >= 0, j < z3.Length(r), r[j] == k)))))
    ctx.assume(z3.ForAll([i], z3.Implies(z3.And(i >= 0, i + 1 < z3.Length(r)), r[i] < r[i + 1])))
    ctx.assume(z3.ForAll([k], seq_elems(r)[k] == mem(k)))
    return VList(seq=r, elem='str')


sort_perm = z3.Function('sort_perm', PVSeq, z3.IntSort(), z3.IntSort())     # position in the input of the j-th output
sort_inv = z3.Function('sort_inv', PVSeq, z3.IntSort(), z3.IntSort())


def sorted_facts(it, seq):
    """py_sorted(seq) with the facts that make it a permutation of seq (index bijection sort_perm / sort_inv)"""
    ctx = it.ctx
    r = py_sorted(seq)
    done = getattr(it, '_sorted_done', None)
    if done is None:
        done = it._sorted_done = set()
    if seq.get_id() in done:
        return r
    done.add(seq.get_id())
    n = z3.Length(seq)
    j, i = ctx.fresh(z3.IntSort(), 'sj'), ctx.fresh(z3.IntSort(), 'si')
    ctx.assume(z3.Length(r) == n)
    ctx.assume(z3.ForAll([j], z3.Implies(z3.And(j >= 0, j < n),
                                         z3.And(sort_perm(seq, j) >= 0, sort_perm(seq, j) < n,
                                                sort_inv(seq, sort_perm(seq, j)) == j,
                                                r[j] == seq[sort_perm(seq, j)])), patterns=[r[j]]))
    ctx.assume(z3.ForAll([i], z3.Implies(z3.And(i >= 0, i < n),
                                         z3.And(sort_inv(seq, i) >= 0, sort_inv(seq, i) < n,
                                                sort_perm(seq, sort_inv(seq, i)) == i,
                                                r[sort_inv(seq, i)] == seq[i])), patterns=[seq[i]]))
    return r


def symbolic_sort(it, keyed):
    """Sort a list of concrete length with symbolic integer keys by case analysis (stable)."""
    n = len(keyed)
    if n <= 1:
        return newlist([x for _, x in keyed])
    if n > 4:
        raise Unsupported('sorting %d elements with symbolic keys' % n)
    out = []
    for k, x in keyed:        # insertion sort, stable: insert after all elements <= k
        pos = 0
        for j in range(len(out)):
            kj = out[j][0]
            le = compare(it, ast.LtE(), kj, k)
            if it.test(le, 'sort'):
                pos = j + 1
            else:
                break
        out.insert(pos, (k, x))
    return newlist([x for _, x in out])


def b_enumerate(it, args, kwargs):
    items = concrete_items_strict(it, args[0])
    return newlist([(i, x) for i, x in enumerate(items)])


def b_zip(it, args, kwargs):
    cols = [concrete_items_strict(it, a) for a in args]
    return newlist([tuple(r) for r in zip(*cols)])


def b_range(it, args, kwargs):
    if all(isinstance(a, int) for a in args):
        return tuple(range(*args))
    raise Unsupported('range() with symbolic bounds')


def b_any(it, args, kwargs):
    v = args[0]
    if isinstance(v, (VList, VSeqIter)) and getattr(v, 'seq', None) is not None:
        # a sequence of symbolic length: some element is truthy
        qi = z3.Const('q.ai.3', z3.IntSort())
        el = pv.elem_value(v, v.seq[qi])
        t = truthy(el)
        return mkbool(z3.Exists([qi], z3.And(qi >= 0, qi < z3.Length(v.seq), pv.as_term_bool(t) if not isinstance(t, bool) else z3.BoolVal(t))))
    items = concrete_items_strict(it, args[0])
    for x in items:
        if it.test(x):
            return True
    return False


def b_all(it, args, kwargs):
    items = concrete_items_strict(it, args[0])
    for x in items:
        if not it.test(x):
            return False
    return True


def b_min(it, args, kwargs):
    xs = args if len(args) > 1 else concrete_items_strict(it, args[0])
    r = xs[0]
    for x in xs[1:]:
        c = compare(it, ast.Lt(), x, r)
        r = x if c is True else r if c is False else ite(it, c.t, x, r)
    return r


def b_max(it, args, kwargs):
    xs = args if len(args) > 1 else concrete_items_strict(it, args[0])
    r = xs[0]
    for x in xs[1:]:
        c = compare(it, ast.Gt(), x, r)
        r = x if c is True else r if c is False else ite(it, c.t, x, r)
    return r


def b_repr(it, args, kwargs):
    v = args[0]
    if is_concrete(v):
        return repr(v)
    return SStr(py_repr(lift(v)))


def b_hex(it, args, kwargs):
    v = args[0]
    if isinstance(v, int):
        return hex(v)
    it.ctx.note('hex(): uninterpreted py_hex')
    return SStr(py_hex(as_term_int(v)))


def b_type(it, args, kwargs):
    if len(args) == 3:
        name, bases, attrs = args
        cls = VClass(name, None, list(bases), bases[0].module if bases else None, {})
        if isinstance(attrs, VDict) and not attrs.symbolic:
            for k in attrs.keys:
                cls.attrs[k] = attrs.vals[k]
        else:
            raise Unsupported('type() with symbolic attribute table')
        return cls
    v = args[0]
    if isinstance(v, VObj):
        return it.getattr(v, '__class__')
    raise Unsupported('type(x)')


def b_print(it, args, kwargs):
    return None


def b_iskeyword(it, args, kwargs):
    import keyword
    v = args[0]
    if isinstance(v, str):
        return keyword.iskeyword(v)
    t = as_term_str(v)
    # keyword list of the interpreter running the repository (3.12); recorded as data
    return mkbool(z3.Or(*[t == z3.StringVal(k) for k in PY312_KEYWORDS]))


PY312_KEYWORDS = ['False', 'None', 'True', 'and', 'as', 'assert', 'async', 'await', 'break', 'class', 'continue',
                  'def', 'del', 'elif', 'else', 'except', 'finally', 'for', 'from', 'global', 'if', 'import', 'in',
                  'is', 'lambda', 'nonlocal', 'not', 'or', 'pass', 'raise', 'return', 'try', 'while', 'with', 'yield']


_BUILTINS = {
    'isinstance': b_isinstance, 'len': b_len, 'str': b_str, 'int': b_int, 'abs': b_abs, 'bool': b_bool,
    'tuple': b_tuple, 'list': b_list, 'set': b_set, 'dict': b_dict, 'getattr': b_getattr, 'setattr': b_setattr,
    'hasattr': b_hasattr, 'sorted': b_sorted, 'enumerate': b_enumerate, 'zip': b_zip, 'range': b_range,
    'any': b_any, 'all': b_all, 'min': b_min, 'max': b_max, 'repr': b_repr, 'hex': b_hex, 'type': b_type,
    'print': b_print, 'unicode': b_str, 'long': b_int,
}


def builtin_name(it, name):
    U = _unbound()
    if name in _BUILTINS:
        return VBuiltin(name, _BUILTINS[name])
    if name in ('object', 'bytes', 'float'):
        return VBuiltin(name, lambda it_, a, k: _unsupported('call of %s()' % name))
    from .interp import BUILTIN_EXC
    if name in BUILTIN_EXC or name in ('IOError', 'EnvironmentError'):
        return VClass(name)
    if name in it.world.models:
        return VBuiltin(name, it.world.models[name])
    if it.spec() and name in SPEC_FUNCS:
        return VBuiltin(name, SPEC_FUNCS[name])
    return U


# --------------------------------------------------------------------------
# specification forms (only inside contract clauses)

def _lambda_of(it, node, env):
    if not isinstance(node, ast.Lambda):
        raise Unsupported('quantifier body must be a lambda')
    return node


def sf_old(it, e, env):
    key = ast.dump(e.args[0])
    store = getattr(it, 'old_store', {})
    if key not in store:
        raise Unsupported('old(%s) was not snapshotted' % ast.unparse(e.args[0]))
    return store[key]


def sf_pre(it, e, env):
    key = ast.dump(e.args[0])
    for fr in reversed(getattr(it, 'pre_frames', [])):
        if key in fr:
            return fr[key]
    raise Unsupported('pre(%s) outside a loop invariant' % ast.unparse(e.args[0]))


def sf_prev(it, e, env):
    key = ast.dump(e.args[0])
    for fr in reversed(getattr(it, 'prev_frames', [])):
        if key in fr:
            return fr[key]
    raise Unsupported('prev(%s) outside a loop step clause' % ast.unparse(e.args[0]))


def _quant(it, e, env, universal):
    from .interp import Env
    ctx = it.ctx
    args = e.args
    if isinstance(args[-1], ast.Lambda):
        lam = args[-1]
    else:
        fv = it.eval(args[-1], env)
        if not (isinstance(fv, VFunc) and isinstance(fv.node, ast.Lambda)):
            raise Unsupported('quantifier body must be a lambda')
        lam = fv.node
        env = fv.env if fv.env is not None else env
    names = [a.arg for a in lam.args.args]
    cenv = Env(parent=env)
    consts = []
    guard = []
    qd = getattr(it, 'quant_depth', 0)
    it.quant_depth = qd + 1
    try:
        return _quant_body(it, e, env, universal, args, lam, names, cenv, consts, guard, qd)
    finally:
        it.quant_depth = qd


def _quant_body(it, e, env, universal, args, lam, names, cenv, consts, guard, qd):
    """bound variables get canonical names (q.<parameter>.<depth>): the same clause evaluated twice yields the
    identical term, so an assumed postcondition and the goal it implies match syntactically"""
    from .interp import Env
    ctx = it.ctx

    def bound(sort, hint):
        return z3.Const('q.%s.%d' % (hint, qd), sort)
    if len(args) == 2:
        coll = it.eval(args[0], env)
        items = concrete_items(it, coll)
        if items is not None and len(names) == 2 and isinstance(coll, VDict) and not coll.symbolic:
            items = [(k_, coll.vals[k_]) for k_ in coll.keys]       # (key, value) quantification over a concrete dict
        if items is not None:
            terms = []
            for x in items:
                it.assign(ast.Name(id=names[0], ctx=ast.Store()), x, cenv) if len(names) == 1 else \
                    [cenv.set(n, v) for n, v in zip(names, it.unpack(x, len(names)))]
                t = truthy(it.eval(lam.body, cenv))
                terms.append(pv.as_term_bool(t))
            if not terms:
                return universal
            return mkbool(z3.And(*terms) if universal else z3.Or(*terms))
        if isinstance(coll, SAny) and len(names) == 2 and getattr(lam, '_as_dict', True) and \
                not isinstance(args[0], ast.Call):
            # (key, value) quantification over an untyped value: a dict
            coll = VDict(arr=PV.dvals(coll.t))
        if isinstance(coll, (VKeys, VDict)):
            # keys of symbolically indexed dicts are strings: quantify over the index itself
            k = bound(z3.StringSort(), names[0])
            consts.append(k)
            arr = coll.to_arr() if isinstance(coll, VDict) else coll.arr
            guard.append(arr[k] != pv.PAbsent)
            cenv.set(names[0], SStr(k))
            if len(names) == 2:
                cenv.set(names[1], SAny(arr[k]))
        elif isinstance(coll, VSet):
            k = bound(z3.StringSort(), names[0])
            consts.append(k)
            guard.append(coll.to_arr()[k])
            cenv.set(names[0], SStr(k))
        else:
            typed = isinstance(coll, VSeqIter) or (isinstance(coll, VList) and coll.symbolic)
            seq = pv.ssimp(coll.seq if typed else it.seq_term(coll))
            # a quantifier over  xs ++ [y]  is decomposed structurally: over xs, and the body at y
            parts = []

            def flat(sq):
                if z3.is_app(sq) and sq.decl().kind() == z3.Z3_OP_SEQ_CONCAT:
                    for c in sq.children():
                        flat(c)
                else:
                    parts.append(sq)
            flat(seq)
            if len(parts) > 1 or (parts and z3.is_app(parts[0]) and parts[0].decl().kind() in
                                  (z3.Z3_OP_SEQ_UNIT, z3.Z3_OP_SEQ_EMPTY)):
                terms = []
                offset = z3.IntVal(0)
                for part in parts:
                    kd = part.decl().kind() if z3.is_app(part) else None
                    if kd == z3.Z3_OP_SEQ_EMPTY:
                        continue
                    penv = Env(parent=env)
                    if kd == z3.Z3_OP_SEQ_UNIT:
                        ev = pv.elem_value(coll, part.arg(0)) if typed else lower(part.arg(0))
                        if len(names) == 2:
                            penv.set(names[0], SInt(z3.simplify(offset)))
                            penv.set(names[1], ev)
                        else:
                            penv.set(names[0], ev)
                        terms.append(pv.as_term_bool(truthy(it.eval(lam.body, penv))))
                        offset = offset + 1
                    else:
                        i = bound(z3.IntSort(), 'idx%d' % len(terms))
                        ev = pv.elem_value(coll, part[i]) if typed else SAny(part[i])
                        if len(names) == 2:
                            penv.set(names[0], SInt(z3.simplify(offset + i)))
                            penv.set(names[1], ev)
                        else:
                            penv.set(names[0], ev)
                        b = pv.as_term_bool(truthy(it.eval(lam.body, penv)))
                        rng = z3.And(i >= 0, i < z3.Length(part))
                        terms.append(z3.ForAll([i], z3.Implies(rng, b)) if universal else z3.Exists([i], z3.And(rng, b)))
                        offset = offset + z3.Length(part)
                if not terms:
                    return universal
                return mkbool(z3.And(*terms) if universal else z3.Or(*terms))
            i = bound(z3.IntSort(), 'idx')
            consts.append(i)
            guard.append(z3.And(i >= 0, i < z3.Length(seq)))
            ev = pv.elem_value(coll, seq[i]) if typed else SAny(seq[i])
            if len(names) == 2:     # (index, element)
                cenv.set(names[0], SInt(i))
                cenv.set(names[1], ev)
            else:
                cenv.set(names[0], ev)
    else:
        for n in names:
            # naming convention: i*, j*, n* -> Int;  s_* -> Str; otherwise untyped
            if n[0] in 'ijn' and (len(n) == 1 or n[1:].isdigit()):
                c = bound(z3.IntSort(), n)
                cenv.set(n, SInt(c))
            elif n.startswith('s_'):
                c = bound(z3.StringSort(), n)
                cenv.set(n, SStr(c))
            else:
                c = bound(PV, n)
                cenv.set(n, SAny(c))
            consts.append(c)
    body = pv.as_term_bool(truthy(it.eval(lam.body, cenv)))
    if universal:
        f = z3.Implies(z3.And(*guard), body) if guard else body
        return mkbool(z3.ForAll(consts, f))
    f = z3.And(*(guard + [body])) if guard else body
    return mkbool(z3.Exists(consts, f))


def sf_forall(it, e, env):
    return _quant(it, e, env, True)


def sf_exists(it, e, env):
    return _quant(it, e, env, False)


def sf_implies(it, e, env):
    a = truthy(it.eval(e.args[0], env))
    if a is False:
        return True
    b = truthy(it.eval(e.args[1], env))
    if a is True:
        return b
    return mkbool(z3.Implies(a.t, pv.as_term_bool(b)))


def sf_iff(it, e, env):
    a = pv.as_term_bool(truthy(it.eval(e.args[0], env)))
    b = pv.as_term_bool(truthy(it.eval(e.args[1], env)))
    return mkbool(a == b)


def sf_ite(it, e, env):
    c = truthy(it.eval(e.args[0], env))
    if isinstance(c, bool):
        return it.eval(e.args[1 if c else 2], env)
    return ite(it, c.t, it.eval(e.args[1], env), it.eval(e.args[2], env))


SPEC_FORMS = {'old': sf_old, 'pre': sf_pre, 'prev': sf_prev, 'forall': sf_forall, 'exists': sf_exists, 'implies': sf_implies,
              'iff': sf_iff, 'ite': sf_ite}


# spec functions: plain callables over values
def sp_is_exc(it, args, kwargs):
    v, name = args
    names = subclasses_of(it, name)
    if isinstance(v, VObj):
        return it.obj_isa(v, name)
    t = lift(v)
    return mkbool(z3.And(PV.is_PObj(t), z3.Or(*[PV.cls(t) == z3.StringVal(n) for n in names])))


def sp_truthy(it, args, kwargs):
    return truthy(args[0])


def sp_is_none(it, args, kwargs):
    return identical(it, args[0], None)


def sp_is_str(it, args, kwargs):
    """a proper str (instances of str subclasses excluded)"""
    v = args[0]
    if isinstance(v, (str, SStr)):
        return True
    if isinstance(v, SAny):
        return mkbool(PV.is_PStr(v.t))
    return False


def sp_is_int(it, args, kwargs):
    return isinstance_one(it, args[0], TYPE_MARKERS['int'])


def sp_is_num(it, args, kwargs):
    """a proper int (bool excluded)"""
    v = args[0]
    if isinstance(v, bool):
        return False
    if isinstance(v, (int, SInt)):
        return True
    if isinstance(v, SAny):
        return mkbool(PV.is_PInt(v.t))
    return False


def sp_absent(it, args, kwargs):
    v = args[0]
    if isinstance(v, SAny):
        return mkbool(v.t == pv.PAbsent)
    return False


def sp_matches(it, args, kwargs):
    from .regex import py_regex_to_z3
    s, rx = args
    return mkbool(z3.InRe(as_term_str(s), py_regex_to_z3(rx)))


def sp_py_int(it, args, kwargs):
    if isinstance(args[0], str):
        return int(args[0])
    return SInt(py_int(as_term_str(args[0])))


def sp_py_int_base(it, args, kwargs):
    if isinstance(args[0], str) and isinstance(args[1], int):
        return int(args[0], args[1])
    return SInt(py_int_base(as_term_str(args[0]), as_term_int(args[1])))


def _string_literals(t, out, seen, budget=200):
    if t.get_id() in seen or len(out) > budget:
        return
    seen.add(t.get_id())
    if z3.is_string_value(t):
        out.add(t.as_string())
        return
    if z3.is_app(t):
        for c in t.children():
            _string_literals(c, out, seen, budget)


def replace_facts(it, term, a, b):
    """py_replace is uninterpreted; for the string literals occurring in its argument (the leaves of an
    if-then-else over table entries) the value CPython computes is added as a fact."""
    if not (isinstance(a, str) and isinstance(b, str)):
        return
    if a and not z3.is_string_value(term):
        # replacing something that does not occur changes nothing
        it.ctx.assume(z3.Implies(z3.Not(z3.Contains(term, z3.StringVal(a))),
                                 py_replace(term, z3.StringVal(a), z3.StringVal(b)) == term))
    lits = set()
    _string_literals(term, lits, set())
    for lit in sorted(lits):
        it.ctx.assume(py_replace(z3.StringVal(lit), z3.StringVal(a), z3.StringVal(b)) == z3.StringVal(lit.replace(a, b)))


def sp_replace(it, args, kwargs):
    if all(isinstance(x, str) for x in args):
        return args[0].replace(args[1], args[2])
    t = as_term_str(args[0])
    replace_facts(it, t, args[1], args[2])
    return SStr(py_replace(t, as_term_str(args[1]), as_term_str(args[2])))


def sp_seq(it, args, kwargs):
    """seq(x): the value as an immutable sequence view (tuple or list)."""
    v = args[0]
    if isinstance(v, VSeqIter):
        return v
    if isinstance(v, VList) and v.symbolic:
        return VSeqIter(v.seq, elem=v.elem)
    return VSeqIter(it.seq_term(v))


def sp_concat(it, args, kwargs):
    return VSeqIter(z3.Concat(*[it.seq_term(a) for a in args]))



def members_of(ctx, seq):
    """The set of elements of a sequence of strings, as a set term.  seq_elems is uninterpreted; the facts added here
    are its definition ( x in seq_elems(s)  iff  x == s[i] for some index i ) unfolded along the structure of the
    term: empty, unit, concatenation (list.extend / append), s[1:] (list.pop(0)), and  s[i] in seq_elems(s)  for
    opaque sequences.  Used instead of seq.contains, which the solvers handle badly under quantifiers."""
    seq = pv.ssimp(seq)
    memo = ctx.ghost.setdefault('__elems__', {})
    hit = memo.get(seq.get_id())
    if hit is not None:
        return hit[0]
    if '__axiom__' not in memo:
        # the defining property, for sequences that only occur under quantifiers (no ground term to attach a fact to)
        memo['__axiom__'] = True
        qs = z3.Const('q.es.7', pv.PVSeq)
        qj = z3.Const('q.ej.7', z3.IntSort())
        ctx.assume(z3.ForAll([qs, qj], z3.Implies(z3.And(qj >= 0, qj < z3.Length(qs)),
                                                  seq_elems_pv(qs)[pv.kenc_t(qs[qj])]),
                             patterns=[z3.MultiPattern(seq_elems_pv(qs), qs[qj])]))
    kd = seq.decl().kind() if z3.is_app(seq) else None
    untyped = seq.sort() == pv.PVSeq
    key = (lambda t: pv.kenc_t(t)) if untyped else (lambda t: t)
    if kd == z3.Z3_OP_SEQ_EMPTY:
        r = pv.EMPTY_SET
    elif kd == z3.Z3_OP_SEQ_UNIT:
        r = z3.Store(pv.EMPTY_SET, key(seq.arg(0)), z3.BoolVal(True))
    elif untyped and kd == z3.Z3_OP_SEQ_MAP and 'PStr(' in str(seq.arg(0)) and seq.arg(1).sort() != pv.PVSeq:
        r = members_of(ctx, seq.arg(1))         # the untyped image of a list of strings
    elif kd == z3.Z3_OP_SEQ_CONCAT:
        r = None
        for c in seq.children():
            m = members_of(ctx, c)
            r = m if r is None else z3.SetUnion(r, m)
    else:
        r = seq_elems_pv(seq) if untyped else seq_elems(seq)
        qi = z3.Const('q.ei.7', z3.IntSort())
        ctx.assume(z3.ForAll([qi], z3.Implies(z3.And(qi >= 0, qi < z3.Length(seq)), r[key(seq[qi])])))
        ctx.assume(z3.Implies(z3.Length(seq) == 0, r == pv.EMPTY_SET))
        if kd == z3.Z3_OP_SEQ_EXTRACT:
            base, lo, ln = seq.arg(0), seq.arg(1), seq.arg(2)
            if z3.is_int_value(lo) and lo.as_long() == 1 and \
                    z3.simplify(ln == z3.Length(base) - 1) is not None and z3.is_true(z3.simplify(ln == z3.Length(base) - 1)):
                mb = members_of(ctx, base)
                ctx.assume(z3.Implies(z3.Length(base) > 0, mb == z3.Store(r, key(base[0]), z3.BoolVal(True))))
    memo[seq.get_id()] = (r, seq)
    return r


def sp_members(it, args, kwargs):
    """members(l): the set of elements of a list / tuple of strings"""
    v = args[0]
    if isinstance(v, (VList, VSeqIter)) and getattr(v, 'seq', None) is not None:
        return VSet(arr=members_of(it.ctx, v.seq))
    if isinstance(v, SAny):
        return VSet(arr=members_of(it.ctx, PV.sitems(v.t)))
    if isinstance(v, VList) and not v.symbolic:
        terms = [pv.elem_term(VSeqIter(None, elem='str'), x) for x in v.items]
        if all(t is not None for t in terms):
            return VSet(arr=members_of(it.ctx, pv.seq_of(terms) if terms else z3.Empty(z3.SeqSort(z3.StringSort()))))
    raise Unsupported('members() of %r' % (v,))


def sp_str_of(it, args, kwargs):
    """str_of(x): the value read as a string (for ordering comparisons of elements of untyped lists)"""
    v = args[0]
    if isinstance(v, (str, SStr)):
        return v
    return SStr(PV.s(lift(v)))


def sp_same(it, args, kwargs):
    """same(a, b): structural equality of the by-value images."""
    a, b = args
    if isinstance(a, (VDict, VKeys)) and isinstance(b, (VDict, VKeys)):
        ta = a.to_arr() if isinstance(a, VDict) else a.arr
        tb = b.to_arr() if isinstance(b, VDict) else b.arr
        return mkbool(ta == tb)
    if isinstance(a, VSet) and isinstance(b, VSet):
        return mkbool(a.to_arr() == b.to_arr())
    return mkbool(lift(a) == lift(b))


def sp_fld(it, args, kwargs):
    return it.getattr(args[0], args[1], default=SAny(pv.PAbsent))


def sp_is_tuple(it, args, kwargs):
    return isinstance_one(it, args[0], TYPE_MARKERS['tuple'])


def sp_is_list(it, args, kwargs):
    return isinstance_one(it, args[0], TYPE_MARKERS['list'])


def sp_is_dict(it, args, kwargs):
    return isinstance_one(it, args[0], TYPE_MARKERS['dict'])


def sp_is_obj(it, args, kwargs):
    v = args[0]
    if isinstance(v, VObj):
        return True if len(args) == 1 else it.obj_isa(v, args[1])
    if isinstance(v, SAny):
        if len(args) == 1:
            return mkbool(PV.is_PObj(v.t))
        return sp_is_exc(it, args, kwargs)
    return False


def sp_has(it, args, kwargs):
    return b_hasattr(it, args, kwargs)


def sp_strval(it, args, kwargs):
    """the str value of an instance of a str subclass (MibStatus)"""
    v = args[0]
    if isinstance(v, VObj):
        return v.strval
    return lower(PV.sval(lift(v)))


SPEC_FUNCS = {
    'DISTINCT_LABELS': sp_distinct_labels, 'is_tuple': sp_is_tuple, 'is_list': sp_is_list, 'is_dict': sp_is_dict, 'is_obj': sp_is_obj, 'has': sp_has,
    'strval': sp_strval,
    'is_num': sp_is_num, 'is_exc': sp_is_exc, 'truthy': sp_truthy, 'is_none': sp_is_none, 'is_str': sp_is_str, 'is_int': sp_is_int,
    'absent': sp_absent, 'matches': sp_matches, 'py_int': sp_py_int, 'py_int_base': sp_py_int_base,
    'py_replace': sp_replace, 'seq': sp_seq, 'concat': sp_concat, 'same': sp_same, 'fld': sp_fld,
    'members': sp_members, 'str_of': sp_str_of,
}
