"""File-system / OS model (assumed contracts, DESIGN 3.2).

Ghost state (ctx.ghost):
  fs_files   dict path -> content (PBytes / PStr value) of regular files
  fs_dirs    set of directory paths
  fs_mtime   dict path -> int
  fs_fds     dict fd -> path            (open descriptors handed out by mkstemp)
  fs_tmp     set of paths created by mkstemp during the call
  fs_faults  number of injected faults (OSError, short write) so far
  fs_pyc     dict path -> bool          (byte-code cache written by py_compile for path)

Every call that can fail chooses adversarially between success and OSError *without effect*
(os.write: with a prefix effect: it may write fewer bytes than asked, returning the count).
rename is atomic (POSIX); mkstemp returns a path that did not exist (uniqueness assumed).
"""
import z3
from .. import pv
from ..pv import PV, SInt, SStr, SAny, SBool, VObj, VDict, VSet, VList, lift, lower, kenc, mkbool, truthy
from ..interp import PyRaise, UNBOUND
from .. import pybuiltins as B

S = z3.StringSort()
path_join = z3.Function('path_join', S, S, S)
path_norm = z3.Function('path_norm', S, S)
path_dirname = z3.Function('path_dirname', S, S)
path_abspath = z3.Function('path_abspath', S, S)
tmp_name = z3.Function('tmp_name', S, z3.IntSort(), S)       # mkstemp(dir): k-th fresh name in dir
pyc_time = z3.Function('pyc_time', PV, z3.IntSort())         # time stamp stored in a byte-code header
listdir_of = z3.Function('listdir_of', S, z3.SeqSort(S))


TMPMARK = '\x01tmp:'


def G(ctx, name, default=None):
    if name not in ctx.ghost:
        if name in ('fs_files', 'fs_mtime', 'fs_fds', 'fs_pyc'):
            ctx.ghost[name] = VDict(arr=ctx.fresh(pv.PVArr, name))
        elif name in ('fs_dirs',):
            ctx.ghost[name] = VSet(arr=ctx.fresh(pv.PVSetS, name))
        elif name == 'fs_tmp':
            ctx.ghost[name] = VSet(arr=pv.EMPTY_SET)
        elif name == 'fs_faults':
            ctx.ghost[name] = 0
        elif name == 'fs_ntmp':
            ctx.ghost[name] = 0
    return ctx.ghost[name]


def init_fs(it, env=None):
    ctx = it.ctx
    for n in ('fs_files', 'fs_mtime', 'fs_dirs', 'fs_pyc'):
        ctx.ghost.pop(n, None)
        G(ctx, n)
    ctx.ghost['fs_fds'] = VDict(arr=pv.EMPTY_ARR)
    ctx.ghost['fs_tmp'] = VSet(arr=pv.EMPTY_SET)
    ctx.ghost['fs_faults'] = 0
    ctx.ghost['fs_ntmp'] = 0
    # a path is not both a file and a directory
    k = ctx.fresh(S, 'p')
    ctx.assume(z3.ForAll([k], z3.Not(z3.And(ctx.ghost['fs_files'].arr[k] != pv.PAbsent, ctx.ghost['fs_dirs'].arr[k]))))
    # file contents are byte strings, time stamps are integers
    fa, ma = ctx.ghost['fs_files'].arr, ctx.ghost['fs_mtime'].arr
    ctx.assume(z3.ForAll([k], z3.Or(fa[k] == pv.PAbsent, PV.is_PBytes(fa[k]))))
    ctx.assume(z3.ForAll([k], PV.is_PInt(ma[k])))


def sterm(v):
    return pv.as_term_str(v)


def fault(it, line, what, cls='OSError'):
    """adversarial failure of an OS call (no effect)"""
    ctx = it.ctx
    if ctx.choose(2, 'os.%s@%s' % (what, line)) == 1:
        ctx.ghost['fs_faults'] = SInt(z3.simplify(pv.as_term_int(G(ctx, 'fs_faults')) + 1))
        ctx.cover('fault:' + what)
        e = VObj(cls)
        e.fields['errno'] = it.fresh_int('errno')
        e.fields['args'] = (it.fresh_str('oserr'),)
        e.fields['msg'] = e.fields['args'][0]
        raise PyRaise(e, line)


def is_file(ctx, p):
    return G(ctx, 'fs_files').arr[sterm(p)] != pv.PAbsent


def is_dir(ctx, p):
    return G(ctx, 'fs_dirs').arr[sterm(p)]


def m_exists(it, args, kwargs):
    return mkbool(z3.Or(is_file(it.ctx, args[0]), is_dir(it.ctx, args[0])))


def m_isfile(it, args, kwargs):
    return mkbool(is_file(it.ctx, args[0]))


def m_isdir(it, args, kwargs):
    return mkbool(is_dir(it.ctx, args[0]))


def m_join(it, args, kwargs):
    r = args[0]
    for a in args[1:]:
        if isinstance(r, str) and isinstance(a, str):
            import os
            r = os.path.join(r, a)
        else:
            t = path_join(sterm(r), sterm(a))
            it.ctx.assume(z3.Not(z3.PrefixOf(z3.StringVal(TMPMARK), t)))
            r = SStr(t)
    return r


def m_normpath(it, args, kwargs):
    return SStr(path_norm(sterm(args[0])))


def m_dirname(it, args, kwargs):
    return SStr(path_dirname(sterm(args[0])))


def m_abspath(it, args, kwargs):
    return SStr(path_abspath(sterm(args[0])))


def m_stat(it, args, kwargs):
    ctx = it.ctx
    p = args[0]
    line = None
    fault(it, line, 'stat')
    if not ctx.branch(z3.Or(is_file(ctx, p), is_dir(ctx, p)), 'stat-exists'):
        e = VObj('OSError')
        e.fields['args'] = ('no such file',)
        e.fields['msg'] = 'no such file'
        raise PyRaise(e, line)
    mt = G(ctx, 'fs_mtime').arr[sterm(p)]
    # stat_result: index 8 is st_mtime
    items = [it.fresh_int('st%d' % i) for i in range(8)] + [SInt(PV.i(mt))] + [it.fresh_int('st9')]
    return tuple(items)


def m_access(it, args, kwargs):
    return m_exists(it, args[:1], kwargs)


def m_makedirs(it, args, kwargs):
    ctx = it.ctx
    fault(it, None, 'makedirs')
    p = sterm(args[0])
    d = G(ctx, 'fs_dirs')
    ctx.ghost['fs_dirs'] = VSet(arr=z3.Store(d.arr, p, z3.BoolVal(True)))
    return None


def m_mkstemp(it, args, kwargs):
    ctx = it.ctx
    fault(it, None, 'mkstemp')
    d = kwargs.get('dir', '')
    n = G(ctx, 'fs_ntmp')
    ctx.ghost['fs_ntmp'] = n + 1
    # temporary names live in a name space of their own (never equal to a path the caller computes)
    p = z3.Concat(z3.StringVal(TMPMARK), tmp_name(sterm(d), z3.IntVal(n)))
    # uniqueness: the name does not exist yet (file or directory) -- assumption of the model
    ctx.assume(z3.Not(is_file(ctx, SStr(p))))
    ctx.assume(z3.Not(is_dir(ctx, SStr(p))))
    ctx.note('tempfile.mkstemp returns a path that does not exist yet (uniqueness assumed)')
    files = G(ctx, 'fs_files')
    ctx.ghost['fs_files'] = VDict(arr=z3.Store(files.arr, p, PV.PBytes(z3.StringVal(''))))
    tmp = G(ctx, 'fs_tmp')
    ctx.ghost['fs_tmp'] = VSet(arr=z3.Store(tmp.arr, p, z3.BoolVal(True)))
    fd = 100 + n
    fds = G(ctx, 'fs_fds')
    ctx.ghost['fs_fds'] = VDict(arr=z3.Store(fds.arr, kenc(fd), PV.PStr(p)))
    return (fd, SStr(p))


def bytes_term(v):
    if isinstance(v, bytes):
        return z3.StringVal(v.decode('latin-1'))
    if isinstance(v, SAny):
        return PV.by(v.t)
    raise pv.Unsupported('os.write of %r' % (v,))


def m_write(it, args, kwargs):
    ctx = it.ctx
    fd, data = args
    fault(it, None, 'write')
    bt = bytes_term(data)
    ln = z3.Length(bt)
    # short write: any count between 0 and len (a count below len is a fault of kind "falls short")
    n = ctx.fresh(z3.IntSort(), 'written')
    ctx.assume(z3.And(n >= 0, n <= ln))
    if ctx.choose(2, 'os.write-short') == 1:
        ctx.assume(n < ln)
        ctx.ghost['fs_faults'] = SInt(z3.simplify(pv.as_term_int(G(ctx, 'fs_faults')) + 1))
        ctx.cover('fault:short-write')
    else:
        ctx.assume(n == ln)
    fds = G(ctx, 'fs_fds')
    p = PV.s(fds.arr[kenc(fd)])
    files = G(ctx, 'fs_files')
    cur = PV.by(files.arr[p])
    ctx.ghost['fs_files'] = VDict(arr=z3.Store(files.arr, p, PV.PBytes(z3.Concat(cur, z3.SubString(bt, 0, n)))))
    return SInt(n)


def m_close(it, args, kwargs):
    ctx = it.ctx
    fault(it, None, 'close')
    fds = G(ctx, 'fs_fds')
    ctx.ghost['fs_fds'] = VDict(arr=z3.Store(fds.arr, kenc(args[0]), pv.PAbsent))
    return None


def m_rename(it, args, kwargs):
    ctx = it.ctx
    fault(it, None, 'rename')
    src, dst = sterm(args[0]), sterm(args[1])
    files = G(ctx, 'fs_files')
    content = files.arr[src]
    a = z3.Store(z3.Store(files.arr, dst, content), src, pv.PAbsent)
    ctx.ghost['fs_files'] = VDict(arr=z3.If(src == dst, files.arr, a))
    ctx.note('os.rename replaces the destination atomically (POSIX)')
    return None


def m_fdopen(it, args, kwargs):
    """os.fdopen(fd, mode): a file object over an open descriptor.  write(data) writes everything or fails (the file
    object loops over short writes); leaving the `with` block / close() closes the descriptor (may fail)."""
    fd = args[0]
    f = VObj('file')
    f.fields['fd'] = fd
    f.fields['closed'] = False

    def do_write(i, a, k):
        ctx = i.ctx
        fault(i, None, 'write')
        bt = bytes_term(a[0])
        fds = G(ctx, 'fs_fds')
        p = PV.s(fds.arr[kenc(fd)])
        files = G(ctx, 'fs_files')
        cur = PV.by(files.arr[p])
        ctx.ghost['fs_files'] = VDict(arr=z3.Store(files.arr, p, PV.PBytes(z3.Concat(cur, bt))))
        return SInt(z3.Length(bt))

    def do_close(i, a=None, k=None):
        if f.fields['closed'] is True:
            return None
        f.fields['closed'] = True
        return m_close(i, [fd], {})

    def hook(it_, obj, attr):
        if attr == 'write':
            return pv.VBuiltin('file.write', do_write)
        if attr == 'close':
            return pv.VBuiltin('file.close', do_close)
        return UNBOUND
    f.attr_hook = hook
    f.with_enter = lambda i: f
    f.with_exit = lambda i: do_close(i)
    return f


def m_unlink(it, args, kwargs):
    ctx = it.ctx
    fault(it, None, 'unlink')
    p = sterm(args[0])
    files = G(ctx, 'fs_files')
    if not ctx.branch(files.arr[p] != pv.PAbsent, 'unlink-exists'):
        e = VObj('OSError')
        e.fields['args'] = ('no such file',)
        e.fields['msg'] = 'no such file'
        raise PyRaise(e, None)
    ctx.ghost['fs_files'] = VDict(arr=z3.Store(files.arr, p, pv.PAbsent))
    return None


def m_listdir(it, args, kwargs):
    fault(it, None, 'listdir')
    return VList(seq=listdir_of(sterm(args[0])), elem='str')


def m_uname(it, args, kwargs):
    if it.ctx.choose(2, 'os.uname') == 1:
        it.raise_py('AttributeError', 'uname')
    return tuple(it.fresh_str('uname%d' % i) for i in range(5))


def m_getuid(it, args, kwargs):
    return it.fresh_int('uid')


def m_getpwuid(it, args, kwargs):
    if it.ctx.choose(2, 'getpwuid') == 1:
        it.raise_py('KeyError', 'getpwuid(): uid not found')
    return tuple(it.fresh_str('pw%d' % i) for i in range(7))


def m_py_compile(it, args, kwargs):
    ctx = it.ctx
    d = ctx.choose(4, 'py_compile.compile')
    if d == 0:
        pyc = G(ctx, 'fs_pyc')
        ctx.ghost['fs_pyc'] = VDict(arr=z3.Store(pyc.arr, sterm(args[0]), PV.PBool(z3.BoolVal(True))))
        return it.fresh_str('pycpath')
    cls = ['SyntaxError', 'PyCompileError', 'OSError'][d - 1]
    ctx.ghost['fs_faults'] = SInt(z3.simplify(pv.as_term_int(G(ctx, 'fs_faults')) + 1))
    e = VObj(cls)
    e.fields['args'] = (it.fresh_str('err'),)
    e.fields['msg'] = e.fields['args'][0]
    raise PyRaise(e, None)


class FileObj:
    pass


def m_open(it, args, kwargs):
    """builtin open(path[, mode]) for reading"""
    ctx = it.ctx
    p = args[0]
    mode = args[1] if len(args) > 1 else kwargs.get('mode', 'r')
    fault(it, None, 'open', 'IOError')
    if not ctx.branch(is_file(ctx, p), 'open-exists'):
        e = VObj('IOError')
        e.fields['args'] = ('no such file',)
        e.fields['msg'] = 'no such file'
        raise PyRaise(e, None)
    f = VObj('file')
    f.fields['path'] = p
    f.fields['mode'] = mode
    f.fields['closed'] = False

    def hook(it_, obj, attr):
        if attr == 'read':
            return pv.VBuiltin('file.read', lambda i, a, k: file_read(i, obj, a, k))
        if attr == 'readlines':
            return pv.VBuiltin('file.readlines', lambda i, a, k: file_readlines(i, obj, a, k))
        if attr == 'close':
            return pv.VBuiltin('file.close', lambda i, a, k: file_close(i, obj))
        return UNBOUND
    f.attr_hook = hook
    return f


def file_read(it, f, args, kwargs):
    ctx = it.ctx
    fault(it, None, 'read', 'IOError')
    content = G(ctx, 'fs_files').arr[sterm(f.fields['path'])]
    binary = isinstance(f.fields['mode'], str) and 'b' in f.fields['mode']
    if args:
        n = pv.as_term_int(args[0])
        raw = PV.by(content)
        cut = z3.SubString(raw, 0, n)      # substr clamps at the end of the string, like read(n)
        return SAny(PV.PBytes(cut)) if binary else SStr(B.py_decode(cut))
    if binary:
        return SAny(content)
    if ctx.choose(2, 'read-decode') == 1:
        # text mode: undecodable content
        it.raise_py('UnicodeDecodeError', 'undecodable')
    return SStr(B.py_decode(PV.by(content)))


def file_readlines(it, f, args, kwargs):
    fault(it, None, 'read', 'IOError')
    return VList(seq=it.ctx.fresh(z3.SeqSort(S), 'lines'), elem='str')


def file_close(it, f):
    f.fields['closed'] = True
    return None


def m_unpack(it, args, kwargs):
    """struct.unpack('<L', b) -> (int,) for exactly 4 bytes, struct.error otherwise"""
    b = bytes_term(args[1])
    if not it.ctx.branch(z3.Length(b) == 4, 'unpack-len'):
        e = VObj('struct.error')
        e.fields['args'] = ('unpack requires a buffer of 4 bytes',)
        e.fields['msg'] = e.fields['args'][0]
        raise PyRaise(e, None)
    return (SInt(pyc_time(PV.PBytes(b))),)


def m_gmtime(it, args, kwargs):
    return it.fresh_any('tm')


def m_strftime(it, args, kwargs):
    return it.fresh_str('timestr')


# ---- spec access
def sp_fs(it, args, kwargs):
    return G(it.ctx, args[0])


def sp_file(it, args, kwargs):
    """content of a path ('<absent>' marker when it is not a regular file)"""
    return SAny(G(it.ctx, 'fs_files').arr[sterm(args[0])])


def sp_isfile(it, args, kwargs):
    return mkbool(is_file(it.ctx, args[0]))


def sp_isdir(it, args, kwargs):
    return mkbool(is_dir(it.ctx, args[0]))


def sp_mtime(it, args, kwargs):
    return SInt(PV.i(G(it.ctx, 'fs_mtime').arr[sterm(args[0])]))


def sp_join(it, args, kwargs):
    return m_join(it, args, kwargs)


def sp_encoded(it, args, kwargs):
    """bytes payload of str (compat.encode)"""
    return SAny(PV.PBytes(B.py_encode(sterm(args[0]))))


def sp_pyc_time(it, args, kwargs):
    return SInt(pyc_time(lift(args[0])))


def install(world):
    M = world.models
    M['os.path.exists'] = m_exists
    M['os.path.isfile'] = m_isfile
    M['os.path.isdir'] = m_isdir
    M['os.path.join'] = m_join
    M['os.path.normpath'] = m_normpath
    M['os.path.dirname'] = m_dirname
    M['os.path.abspath'] = m_abspath
    M['os.stat'] = m_stat
    M['os.access'] = m_access
    M['os.makedirs'] = m_makedirs
    M['os.write'] = m_write
    M['os.close'] = m_close
    M['os.rename'] = m_rename
    M['os.replace'] = m_rename
    M['os.fdopen'] = m_fdopen
    M['os.unlink'] = m_unlink
    M['os.listdir'] = m_listdir
    M['os.uname'] = m_uname
    M['os.getuid'] = m_getuid
    M['pwd.getpwuid'] = m_getpwuid
    M['tempfile.mkstemp'] = m_mkstemp
    M['py_compile.compile'] = m_py_compile
    M['open'] = m_open
    M['struct.unpack'] = m_unpack
    M['time.gmtime'] = m_gmtime
    B.SPEC_FUNCS.update({'fs': sp_fs, 'file_at': sp_file, 'isfile': sp_isfile, 'isdir': sp_isdir,
                         'mtime_of': sp_mtime, 'pjoin': sp_join, 'encoded': sp_encoded, 'pyc_time': sp_pyc_time})
    from .. import loops
    for m, gs in {'makedirs': ['fs_dirs', 'fs_faults'], 'mkstemp': ['fs_files', 'fs_tmp', 'fs_fds', 'fs_ntmp', 'fs_faults'],
                  'write': ['fs_files', 'fs_faults'], 'close': ['fs_fds', 'fs_faults'],
                  'rename': ['fs_files', 'fs_faults'], 'replace': ['fs_files', 'fs_faults'], 'fdopen': [], 'unlink': ['fs_files', 'fs_faults'],
                  'stat': ['fs_faults'], 'open': ['fs_faults'], 'read': ['fs_faults'], 'listdir': ['fs_faults'],
                  'compile': ['fs_pyc', 'fs_faults']}.items():
        loops.MODEL_GHOST.setdefault(m, [])
        for g in gs:
            if g not in loops.MODEL_GHOST[m]:
                loops.MODEL_GHOST[m].append(g)
