"""Protocol contracts of the seven component kinds MibCompiler.compile talks to (DESIGN 3.2).

Each call picks its outcome adversarially (ctx.choose): a normal return with unconstrained payload,
or one of the package errors the protocol allows.  "Another package error" is raised as the base class
PySmiError itself: the least specific object a handler can be offered, so a handler narrowed to a
subclass lets it escape.  Ghost maps record what happened so that
postconditions of ``compile`` can speak about effects:

  fetch_n[name@src]   number of getData(name) calls made on source src
  fetch_res[name@src] 'ok' / 'notfound' / 'error'   outcome of the last such call
  asked_n[name@s]     number of fileExists(name) calls on searcher s
  gen_by_name[m]      payload the code generator returned for module m (m = modname(tree))
  gen_n[m]            number of genCode calls for module m
  borrow_by_name[n]   payload a borrower returned for name n
  puts_n[n]           number of putData(n, ...) calls;  puts_total: all putData calls
  put_ok[n]           payload of a putData(n, ...) that returned normally
Obligations raised *by the models* (argument forwarding): see oblige() calls below.
"""
import z3
from .. import pv
from ..pv import PV, SInt, SStr, SAny, SBool, VObj, VDict, VList, VSeqIter, VComp, lift, lower, kenc, veq, truthy
from ..interp import PyRaise

S = z3.StringSort()
modname = z3.Function('modname', PV, S)                 # module name of a syntax tree
tree_imports = z3.Function('tree_imports', PV, z3.SeqSort(S))  # names a tree imports from


def gmap(ctx, name):
    if name not in ctx.ghost:
        ctx.ghost[name] = VDict(arr=pv.EMPTY_ARR)
    return ctx.ghost[name]


def gget(ctx, name, key):
    return gmap(ctx, name).arr[key]


def gset(ctx, name, key, val):
    g = gmap(ctx, name)
    ctx.ghost[name] = VDict(arr=z3.Store(g.arr, key, val))


def gcount(ctx, name, key):
    cur = gget(ctx, name, key)
    n = z3.If(cur == pv.PAbsent, z3.IntVal(0), PV.i(cur))
    gset(ctx, name, key, PV.PInt(n + 1))


def pk(name_val, comp):
    """the string  <component id>@<name>  used as key of the per-(name, component) ghost maps"""
    ref = comp.ref if isinstance(comp, VComp) else lift(comp)
    return SStr(z3.Concat(pv._itos(PV.rid(ref)), z3.StringVal('@'),
                          pv.as_term_str(name_val) if not isinstance(name_val, str) else z3.StringVal(name_val)))


def pair_key(name_val, comp):
    return kenc(pk(name_val, comp))


def hist_or(ctx, name, cond):
    cur = ctx.ghost.get(name, False)
    return pv.mkbool(z3.Or(pv.as_term_bool(cur), cond))


def raise_pkg(it, cls, line, **fields):
    e = VObj(cls)
    e.fields['msg'] = it.fresh_str('msg')
    e.fields['args'] = (e.fields['msg'],)
    for k, v in fields.items():
        e.fields[k] = v
    raise PyRaise(e, line)


def mk_fileinfo(it, hint):
    o = VObj('MibInfo')
    o.fields['name'] = it.fresh_str(hint + '.name')
    o.fields['mtime'] = it.fresh_int(hint + '.mtime')
    o.fields['path'] = it.fresh_str(hint + '.path')
    o.fields['file'] = it.fresh_str(hint + '.file')
    return o


def reader_getData(it, comp, args, kwargs, line):
    ctx = it.ctx
    name = args[0]
    key = pair_key(name, comp)
    gcount(ctx, 'fetch_n', key)
    srcs = ctx.ghost.get('sources_seq')
    if srcs is not None:
        # C08: sources are consulted in the order they were added - the n-th request for a name goes to the n-th source
        cur = gget(ctx, 'fetch_cnt', kenc(name))
        n = z3.If(cur == pv.PAbsent, z3.IntVal(0), PV.i(cur))
        ref = comp.ref if isinstance(comp, VComp) else lift(comp)
        ctx.oblige('compiler.compile.sources_are_consulted_in_the_order_added',
                   z3.And(n >= 0, n < z3.Length(srcs), srcs[n] == ref), line, 'model',
                   info={'clause': 'the n-th getData(name) call of a look-up goes to self._sources[n]'})
    gcount(ctx, 'fetch_cnt', kenc(name))            # calls per requested name, all sources together
    ctx.ghost['h_cur_req'] = name
    ctx.ghost['h_trees'] = 0
    ctx.ghost['reader_calls'] = ctx.ghost.get('reader_calls', 0) + 1
    kw = VDict()
    for k_, v_ in kwargs.items():
        kw.keys.append(k_)
        kw.vals[k_] = v_
    ctx.ghost['reader_last_kwargs'] = kw
    ctx.ghost['reader_last_name'] = name
    d = ctx.choose(3, 'reader.getData@%s' % line)
    gset(ctx, 'fetch_last', kenc(name), lift(['ok', 'notfound', 'error'][d]))
    if d == 0:
        gset(ctx, 'fetch_res', key, lift('ok'))
        ctx.cover('reader.ok')
        res = (mk_fileinfo(it, 'fi'), it.fresh_str('text'))
        ctx.ghost['reader_last'] = res
        return res
    if d == 1:
        gset(ctx, 'fetch_res', key, lift('notfound'))
        raise_pkg(it, 'PySmiReaderFileNotFoundError', line)
    gset(ctx, 'fetch_res', key, lift('error'))
    raise_pkg(it, 'PySmiError', line)


def parser_parse(it, comp, args, kwargs, line):
    ctx = it.ctx
    last = ctx.ghost.get('reader_last')
    if ctx.ghost.get('check_parsed_text'):
        # C08: the text handed to the parser is the text the source just returned for this name
        if isinstance(last, tuple):
            want = lift(last[1])
        elif last is None:
            want = pv.PAbsent               # no source was asked before the parser is called
        else:
            want = PV.sitems(lift(last))[1]
        ctx.oblige('compiler.compile.parser_gets_the_fetched_text', lift(args[0]) == want, line, 'model',
                   info={'clause': 'parser.parse(<text returned by the last source.getData call>)'})
    d = ctx.choose(2, 'parser.parse@%s' % line)
    if d == 0:
        trees = VList(seq=ctx.fresh(pv.PVSeq, 'trees'))     # any number of modules, zero included
        ctx.ghost['h_empty'] = hist_or(ctx, 'h_empty', z3.Length(trees.seq) == 0)
        return trees
    raise_pkg(it, 'PySmiError', line)


def symbolgen_genCode(it, comp, args, kwargs, line):
    ctx = it.ctx
    tree = args[0]
    # history flags used to identify known findings (alias: module name differs from the requested
    # name; multi: more than one module came out of one fetched text)
    n = pv.as_term_int(ctx.ghost.get('h_trees', 0)) + 1
    ctx.ghost['h_trees'] = SInt(z3.simplify(n))
    ctx.ghost['h_multi'] = hist_or(ctx, 'h_multi', n > 1)
    req = ctx.ghost.get('h_cur_req')
    if req is not None:
        ctx.ghost['h_alias'] = hist_or(ctx, 'h_alias', z3.Not(pv.as_term_bool(veq(SStr(modname(lift(tree))), req))))
    d = ctx.choose(2, 'symbolgen.genCode@%s' % line)
    if d == 0:
        if req is not None:
            gset(ctx, 'resolved', kenc(req), lift(True))     # the look-up of req produced (at least) this module
            # req_ok[m]: the module m was (at least once) obtained by looking up an explicitly requested name
            names = ctx.ghost.get('mibnames_seq')
            if names is not None and isinstance(req, (str, SStr)):
                g = gmap(ctx, 'req_ok')
                hit = z3.Contains(names, z3.Unit(pv.as_term_str(req)))
                mk_ = kenc(SStr(modname(lift(tree))))
                ctx.ghost['req_ok'] = VDict(arr=z3.If(hit, z3.Store(g.arr, mk_, lift(True)), g.arr))
        mi = VObj('MibInfo')
        mi.fields['name'] = SStr(modname(lift(tree)))
        mi.fields['imported'] = VSeqIter(tree_imports(lift(tree)), elem='str')
        U = ctx.ghost.get('U')
        if U is not None:
            # assumption of the termination argument: the names the sources can mention lie in a finite universe U
            imps = tree_imports(lift(tree))
            qi = z3.Const('q.ui.8', z3.IntSort())
            ctx.assume(z3.ForAll([qi], z3.Implies(z3.And(qi >= 0, qi < z3.Length(imps)), U.to_arr()[imps[qi]])))
        mi.fields['revision'] = it.fresh_any('rev')
        mi.fields['oid'] = None
        return (mi, it.fresh_any('symtab'))
    raise_pkg(it, 'PySmiError', line)


def codegen_genCode(it, comp, args, kwargs, line):
    ctx = it.ctx
    tree = args[0]
    m = kenc(SStr(modname(lift(tree))))
    gcount(ctx, 'gen_n', m)
    # argument forwarding: the caller's options must reach the generator unchanged
    for opt in ('genTexts', 'textFilter', 'dstTemplate'):
        exp = ctx.ghost.get('opt_' + opt)
        if exp is not None:
            got = kwargs.get(opt)
            ctx.oblige('compiler.compile.codegen_gets_%s' % opt, lift(got) == lift(exp), line, 'model',
                       info={'clause': 'genCode(..., %s=options.get(%r))' % (opt, opt)})
    d = ctx.choose(2, 'codegen.genCode@%s' % line)
    if d == 0:
        mi = VObj('MibInfo')
        mi.fields['name'] = SStr(modname(lift(tree)))
        for f in ('oid', 'identity', 'revision', 'enterprise'):
            mi.fields[f] = it.fresh_any('mi.' + f)
        mi.fields['oids'] = it.fresh_any('mi.oids')
        mi.fields['compliance'] = it.fresh_any('mi.compliance')
        mi.fields['imported'] = VSeqIter(ctx.fresh(pv.PVSeq, 'mi.imported'))
        data = it.fresh_any('mibData')
        gset(ctx, 'gen_by_name', m, lift(data))
        gset(ctx, 'gen_info', m, lift(mi))
        ctx.cover('codegen.ok')
        return (mi, data)
    raise_pkg(it, 'PySmiError', line)


def searcher_fileExists(it, comp, args, kwargs, line):
    ctx = it.ctx
    name = args[0]
    key = pair_key(name, comp)
    gcount(ctx, 'asked_n', key)
    gcount(ctx, 'asked_cnt', kenc(name))
    exp = ctx.ghost.get('opt_rebuild')
    if exp is not None:
        ctx.oblige('compiler.compile.searcher_gets_rebuild', lift(kwargs.get('rebuild')) == lift(exp), line, 'model',
                   info={'clause': "fileExists(..., rebuild=options.get('rebuild'))"})
    d = ctx.choose(4, 'searcher.fileExists@%s' % line)
    res = ['returned', 'notfound', 'fresh', 'error'][d]
    gset(ctx, 'asked_res', key, lift(res))
    if d == 0:
        return None
    if d == 1:
        raise_pkg(it, 'PySmiFileNotFoundError', line)
    if d == 2:
        gset(ctx, 'fresh_seen', kenc(name), lift(True))
        raise_pkg(it, 'PySmiFileNotModifiedError', line)
    raise_pkg(it, 'PySmiError', line)


def borrower_getData(it, comp, args, kwargs, line):
    ctx = it.ctx
    name = args[0]
    key = pair_key(name, comp)
    gcount(ctx, 'borrow_n', kenc(name))
    exp = ctx.ghost.get('opt_genTexts')
    if exp is not None:
        ctx.oblige('compiler.compile.borrower_gets_genTexts', lift(kwargs.get('genTexts')) == lift(exp), line,
                   'model', info={'clause': "borrower.getData(name, genTexts=options.get('genTexts'))"})
    d = ctx.choose(2, 'borrower.getData@%s' % line)
    if d == 0:
        data = it.fresh_any('borrowed')
        gset(ctx, 'borrow_by_name', kenc(name), lift(data))
        gset(ctx, 'borrow_res', key, lift('ok'))
        ctx.cover('borrower.ok')
        return (mk_fileinfo(it, 'bfi'), data)
    gset(ctx, 'borrow_res', key, lift('error'))
    raise_pkg(it, 'PySmiError', line)


def writer_putData(it, comp, args, kwargs, line):
    ctx = it.ctx
    name, data = args[0], args[1]
    gcount(ctx, 'puts_n', kenc(name))
    tot = ctx.ghost.get('puts_total', 0)
    ctx.ghost['puts_total'] = SInt(pv.as_term_int(tot) + 1)
    exp = ctx.ghost.get('opt_dryRun')
    if exp is not None:
        ctx.oblige('compiler.compile.writer_gets_dryRun', lift(kwargs.get('dryRun')) == lift(exp), line, 'model',
                   info={'clause': "putData(name, data, dryRun=options.get('dryRun'))"})
    d = ctx.choose(2, 'writer.putData@%s' % line)
    if d == 0:
        gset(ctx, 'put_ok', kenc(name), lift(data))
        ctx.cover('writer.ok')
        return None
    gset(ctx, 'put_failed', kenc(name), lift(True))
    raise_pkg(it, 'PySmiError', line)


def writer_getData(it, comp, args, kwargs, line):
    return it.fresh_any('olddata')


HIST = ['h_alias', 'h_multi', 'h_empty', 'h_cur_req', 'h_trees']
GHOST_BY_METHOD = {
    'getData': ['fetch_n', 'fetch_res', 'fetch_cnt', 'fetch_last', 'reader_last', 'borrow_n', 'borrow_by_name', 'borrow_res', 'h_cur_req', 'h_trees'],
    'source.getData': ['fetch_n', 'fetch_res', 'fetch_cnt', 'fetch_last', 'reader_last', 'h_cur_req', 'h_trees'],
    'borrower.getData': ['borrow_n', 'borrow_by_name', 'borrow_res'],
    'parse': ['h_empty'],
    '_parser.parse': ['h_empty'],
    'genCode': ['gen_n', 'gen_by_name', 'gen_info', 'h_alias', 'h_multi', 'h_trees', 'resolved', 'req_ok'],
    '_symbolgen.genCode': ['h_alias', 'h_multi', 'h_trees', 'resolved', 'req_ok'],
    '_codegen.genCode': ['gen_n', 'gen_by_name', 'gen_info'],
    'fileExists': ['asked_n', 'asked_res', 'asked_cnt', 'fresh_seen'],
    'searcher.fileExists': ['asked_n', 'asked_res', 'asked_cnt', 'fresh_seen'],
    'putData': ['puts_n', 'puts_total', 'put_ok', 'put_failed'],
    '_writer.putData': ['puts_n', 'puts_total', 'put_ok', 'put_failed'],
}


def sp_ghost(it, args, kwargs):
    if args[0] == 'puts_total' or args[0].startswith(('h_', 'opt_', 'cb_', 'reader_')):
        return it.ctx.ghost.get(args[0], 0)
    if args[0] == 'U':
        return it.ctx.ghost['U']
    return gmap(it.ctx, args[0])


def sp_pk(it, args, kwargs):
    return pk(args[0], args[1])


def sp_count(it, args, kwargs):
    """count(map, key): number recorded in a counting ghost map (0 when absent)"""
    m, k = args
    cur = m.arr[kenc(k)]
    return SInt(z3.If(cur == pv.PAbsent, z3.IntVal(0), PV.i(cur)))


def sp_imports_of(it, args, kwargs):
    """imports_of(tree): the module names the IMPORTS clause of a syntax tree mentions (what the symbol-table
    generator reports as MibInfo.imported for that tree), as a typed sequence of strings"""
    return VSeqIter(tree_imports(lift(args[0])), elem='str')


def sp_modname(it, args, kwargs):
    return SStr(modname(lift(args[0])))


def init_ghost(it, env, options=None):
    ctx = it.ctx
    for g in ('fetch_n', 'fetch_res', 'fetch_cnt', 'fetch_last', 'resolved', 'req_ok', 'asked_n', 'asked_res', 'asked_cnt', 'fresh_seen', 'gen_n', 'gen_by_name', 'gen_info', 'borrow_n',
              'borrow_by_name', 'borrow_res', 'puts_n', 'put_ok', 'put_failed'):
        ctx.ghost[g] = VDict(arr=pv.EMPTY_ARR)
    ctx.ghost['puts_total'] = 0
    for h in ('h_alias', 'h_multi', 'h_empty'):
        ctx.ghost[h] = False
    ctx.ghost['h_trees'] = 0
    ctx.ghost['h_cur_req'] = None
    if options is not None:
        from .. import pybuiltins as B
        for o in ('genTexts', 'textFilter', 'dstTemplate', 'rebuild', 'dryRun'):
            ctx.ghost['opt_' + o] = B.dict_method(it, options, 'get', [o], {})


def install(world):
    from .. import pybuiltins as B
    B.SPEC_FUNCS.update({'ghost': sp_ghost, 'pk': sp_pk, 'count': sp_count, 'modname': sp_modname,
                         'imports_of': sp_imports_of})
    C = world.comp_models
    C[('reader', 'getData')] = reader_getData
    C[('parser', 'parse')] = parser_parse
    C[('symbolgen', 'genCode')] = symbolgen_genCode
    C[('codegen', 'genCode')] = codegen_genCode
    C[('searcher', 'fileExists')] = searcher_fileExists
    C[('borrower', 'getData')] = borrower_getData
    C[('writer', 'putData')] = writer_putData
    C[('writer', 'getData')] = writer_getData
    from .. import loops
    for m, gs in GHOST_BY_METHOD.items():
        loops.MODEL_GHOST.setdefault(m, [])
        for g in gs:
            if g not in loops.MODEL_GHOST[m]:
                loops.MODEL_GHOST[m].append(g)
