"""Environment models: assumed contracts of everything outside the verified text."""


def install(world):
    from . import stdlib
    stdlib.install(world)
    try:
        from . import components
        components.install(world)
    except ImportError:
        pass
    try:
        from . import osfs
        osfs.install(world)
    except ImportError:
        pass
