"""CPython library functions used by the verified code (trusted, see DESIGN 3.2)."""
import z3
from .. import pv
from ..pv import SStr, SInt, SAny, VObj, VList, Unsupported, lift, lower
from .. import pybuiltins as B


def m_iskeyword(it, args, kwargs):
    return B.b_iskeyword(it, args, kwargs)


def m_exc_info(it, args, kwargs):
    if not it.exc_stack:
        return (None, None, None)
    e = it.exc_stack[-1]
    return (it.getattr(e, '__class__', default=None), e, SAny(pv.PV.PRef(z3.StringVal('traceback'), z3.IntVal(0))))


def m_re_sub(it, args, kwargs):
    it.ctx.note('re.sub: trusted (uninterpreted re_sub)')
    pat, repl, s = args[:3]
    return SStr(re_sub(pv.as_term_str(pat), pv.as_term_str(repl), pv.as_term_str(s)))


re_sub = z3.Function('re_sub', z3.StringSort(), z3.StringSort(), z3.StringSort(), z3.StringSort())
re_findall_count = z3.Function('re_findall_count', z3.StringSort(), z3.StringSort(), z3.IntSort())


def m_re_findall(it, args, kwargs):
    """re.findall(p, s): only its length is ever used (line counting) -> a list of symbolic length."""
    it.ctx.note('re.findall: trusted (only len() of the result is modelled, re_findall_count >= 0)')
    n = re_findall_count(pv.as_term_str(args[0]), pv.as_term_str(args[1]))
    seq = it.ctx.fresh(pv.PVSeq, 'findall')
    it.ctx.assume(z3.Length(seq) == n)
    it.ctx.assume(n >= 0)
    return VList(seq=seq)


def m_time_time(it, args, kwargs):
    return it.fresh_int('now')


def m_noop(it, args, kwargs):
    return None


def m_dorepr(it, args, kwargs):
    return B.b_repr(it, args, kwargs)


def install(world):
    M = world.models
    M['keyword.iskeyword'] = m_iskeyword
    M['sys.exc_info'] = m_exc_info
    M['re.sub'] = m_re_sub
    M['re.findall'] = m_re_findall
    M['time.time'] = m_time_time


def m_asctime(it, args, kwargs):
    return it.fresh_str('asctime')


_orig_install = install


def install(world):     # noqa
    _orig_install(world)
    world.models['time.asctime'] = m_asctime
    world.models['sys.version'] = None


def m_ordereddict(it, args, kwargs):
    return B.make_dict(it, args, kwargs, ordered='OrderedDict')


_orig_install2 = install


def install(world):     # noqa
    _orig_install2(world)
    world.models['collections.OrderedDict'] = m_ordereddict
    world.models['ordereddict.OrderedDict'] = m_ordereddict


valid_time = z3.Function('valid_time', z3.StringSort(), z3.StringSort(), z3.BoolSort())   # strptime accepts (s, fmt)
parsed_time = z3.Function('parsed_time', z3.StringSort(), z3.StringSort(), pv.PV)
format_time = z3.Function('format_time', z3.StringSort(), pv.PV, z3.StringSort())


def m_strptime(it, args, kwargs):
    if isinstance(args[0], str) and isinstance(args[1], str):
        import time as _t
        try:
            _t.strptime(args[0], args[1])
            it.ctx.assume(valid_time(z3.StringVal(args[0]), z3.StringVal(args[1])))
        except ValueError:
            it.ctx.assume(z3.Not(valid_time(z3.StringVal(args[0]), z3.StringVal(args[1]))))
    s_, f_ = pv.as_term_str(args[0]), pv.as_term_str(args[1])
    it.ctx.note('time.strptime / strftime: trusted (uninterpreted valid_time / parsed_time / format_time)')
    if not it.spec() and not it.ctx.branch(valid_time(s_, f_), 'strptime'):
        it.raise_py('ValueError', 'time data does not match format')
    return SAny(parsed_time(s_, f_))


def m_strftime(it, args, kwargs):
    return SStr(format_time(pv.as_term_str(args[0]), lift(args[1])))


def sp_valid_time(it, args, kwargs):
    return pv.mkbool(valid_time(pv.as_term_str(args[0]), pv.as_term_str(args[1])))


_orig_install3 = install


def install(world):     # noqa
    _orig_install3(world)
    world.models['time.strptime'] = m_strptime
    world.models['time.strftime'] = m_strftime
    B.SPEC_FUNCS['strptime'] = m_strptime
    B.SPEC_FUNCS['strftime'] = m_strftime
    B.SPEC_FUNCS['valid_time'] = sp_valid_time


def sp_NL(it, args, kwargs):
    """NL(s): number of line terminators of s, i.e. len(re.findall(r'\\r\\n|\\n|\\r', s))"""
    v = args[0]
    if isinstance(v, str):
        import re as _re
        return len(_re.findall(r'\r\n|\n|\r', v))
    s_ = pv.as_term_str(v)
    n = re_findall_count(z3.StringVal('\\r\\n|\\n|\\r'), s_)
    ctx = it.ctx
    ctx.assume(n >= 0)
    # facts about the count (properties of re.findall, trusted): no CR / LF -> 0; the three terminators -> 1
    nocrlf = z3.And(z3.Not(z3.Contains(s_, z3.StringVal('\n'))), z3.Not(z3.Contains(s_, z3.StringVal('\r'))))
    ctx.assume(nocrlf == (n == 0))
    for lit in ('\r\n', '\n', '\r'):
        ctx.assume(z3.Implies(s_ == z3.StringVal(lit), n == 1))
    return SInt(n)


_orig_install4 = install


def install(world):     # noqa
    _orig_install4(world)
    B.SPEC_FUNCS['NL'] = sp_NL
