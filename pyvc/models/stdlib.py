"""CPython library functions used by the verified code (trusted, see DESIGN 3.2)."""
import z3
from .. import pv
from ..pv import SStr, SInt, SAny, VObj, VList, Unsupported, lift, lower
from .. import pybuiltins as B


def m_iskeyword(it, args, kwargs):
    return B.b_iskeyword(it, args, kwargs)


def m_exc_info(it, args, kwargs):
    if not it.exc_stack:
        return (None, None, None)
    e = it.exc_stack[-1]
    return (it.getattr(e, '__class__', default=None), e, SAny(pv.PV.PRef(z3.StringVal('traceback'), z3.IntVal(0))))


def m_re_sub(it, args, kwargs):
    it.ctx.note('re.sub: trusted (uninterpreted re_sub)')
    pat, repl, s = args[:3]
    return SStr(re_sub(pv.as_term_str(pat), pv.as_term_str(repl), pv.as_term_str(s)))


re_sub = z3.Function('re_sub', z3.StringSort(), z3.StringSort(), z3.StringSort(), z3.StringSort())
re_findall_count = z3.Function('re_findall_count', z3.StringSort(), z3.StringSort(), z3.IntSort())


def m_re_findall(it, args, kwargs):
    """re.findall(p, s): only its length is ever used (line counting) -> a list of symbolic length."""
    it.ctx.note('re.findall: trusted (only len() of the result is modelled, re_findall_count >= 0)')
    n = re_findall_count(pv.as_term_str(args[0]), pv.as_term_str(args[1]))
    seq = it.ctx.fresh(pv.PVSeq, 'findall')
    it.ctx.assume(z3.Length(seq) == n)
    it.ctx.assume(n >= 0)
    return VList(seq=seq)


def m_time_time(it, args, kwargs):
    return it.fresh_int('now')


def m_noop(it, args, kwargs):
    return None


def m_dorepr(it, args, kwargs):
    return B.b_repr(it, args, kwargs)


def install(world):
    M = world.models
    M['keyword.iskeyword'] = m_iskeyword
    M['sys.exc_info'] = m_exc_info
    M['re.sub'] = m_re_sub
    M['re.findall'] = m_re_findall
    M['time.time'] = m_time_time


def m_asctime(it, args, kwargs):
    return it.fresh_str('asctime')


_orig_install = install


def install(world):     # noqa
    _orig_install(world)
    world.models['time.asctime'] = m_asctime
    world.models['sys.version'] = None
