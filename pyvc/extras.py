"""Obligations that are not postconditions of one function: class invariants over the lexer rules, regular
expression lemmas, table invariants, the lockstep lemma between LR tables.  Each returns dicts
{name, verdict, backend, t, info[, replay_path, replay_rc]} like a function obligation."""
import ast
import os
import time
import z3
from .extract import SourceFile, docstring_of
from .regex import parse as parse_regex, ANY
from .pv import Unsupported

VERIF = os.path.dirname(os.path.dirname(os.path.abspath(__file__)))


def _ob(name, ok, info, t0, backend='z3', witness=None):
    d = {'name': name, 'verdict': 'discharged' if ok else 'refuted', 'backend': backend,
         't': round(time.time() - t0, 4), 'info': info, 'kind': 'lemma', 'line': None}
    if witness is not None:
        d['witness'] = witness
    return d


def lexer_rules():
    """(state, name, regex, node) for every t_* function rule of SmiV2Lexer, in definition order"""
    src = SourceFile.get('pysmi/lexer/smi.py')
    cls = src.find('SmiV2Lexer')
    states = ['INITIAL']
    for st in cls.body:
        if isinstance(st, ast.Assign) and isinstance(st.targets[0], ast.Name) and st.targets[0].id == 'states':
            states += [e.elts[0].value for e in st.value.elts]
    rules = []
    errors = set()
    for st in cls.body:
        if isinstance(st, ast.FunctionDef) and st.name.startswith('t_'):
            nm = st.name[2:]
            state = 'INITIAL'
            for s_ in states[1:]:
                if nm.startswith(s_ + '_'):
                    state, nm = s_, nm[len(s_) + 1:]
            if nm == 'error':
                errors.add(state)
                continue
            doc = docstring_of(st)
            if doc is None:
                continue
            rules.append((state, st.name, doc, st))
        elif isinstance(st, ast.Assign):
            # t_a_error = t_b_error = t_error  style aliases
            for tg in st.targets:
                if isinstance(tg, ast.Name) and tg.id.startswith('t_') and tg.id.endswith('_error'):
                    errors.add(tg.id[2:-6] or 'INITIAL')
    return states, rules, errors


def c11_lexer_class(world):
    """every lexer state either has an error rule (raising the package error: see contract lexer.t_error) or its
    rules accept every character, so that PLY never raises its own LexError; no rule accepts the empty string"""
    out = []
    states, rules, errors = lexer_rules()
    for state in states:
        t0 = time.time()
        if state in errors:
            out.append(_ob('lexer.state[%s].has_error_rule_or_is_total' % state, True,
                           {'clause': 'state %s has an error rule' % state}, t0, 'static'))
            continue
        # union of the first-character sets of the state's rules (a rule with a look-ahead may fail: not counted)
        s = z3.Solver()
        s.set('timeout', 5000)
        c = z3.String('c')
        s.add(z3.Length(c) == 1)
        skipped = []
        for st_, name, rx, node in rules:
            if st_ != state:
                continue
            r, la = parse_regex(rx)
            if la is not None:
                skipped.append(name)
                continue
            s.add(z3.Not(z3.InRe(c, z3.Concat(z3.Intersect(r, z3.Concat(ANY, z3.Star(ANY))), z3.Star(ANY)))))
            # (a one-character string with a non-empty prefix matched by the rule)
        if state == 'INITIAL':
            # literals and string rules are not functions; INITIAL has t_error in the shipped lexer anyway
            pass
        res = s.check()
        wit = s.model()[c].as_string() if res == z3.sat else None
        out.append(_ob('lexer.state[%s].has_error_rule_or_is_total' % state, res == z3.unsat,
                       {'clause': 'state %s has no error rule: its rules must accept every character '
                                  '(rules with a look-ahead may fail and are not counted: %s)' % (state, skipped),
                        'unmatched_character': wit}, t0))
    for st_, name, rx, node in rules:
        t0 = time.time()
        r, la = parse_regex(rx)
        s = z3.Solver()
        s.add(z3.InRe(z3.StringVal(''), r))
        out.append(_ob('lexer.%s.never_matches_the_empty_string' % name, s.check() == z3.unsat,
                       {'clause': 'epsilon not in L(%s)' % rx}, t0))
    return out


def lexer_regex_spec(world):
    """the pattern of every token rule denotes the language its contract is written for (the contract's
    precondition `matches(t.value, <regex>)` is the specification of what the rule consumes: a comment body stops
    at CR and LF, a quoted string at the next quote, ...)"""
    from contracts import lexer as LC
    out = []
    src = SourceFile.get('pysmi/lexer/smi.py')
    for c in LC.CONTRACTS:
        spec = [n[6:] for n in c.notes if n.startswith('regex=')]
        if not spec or c.func.endswith('t_error'):
            continue            # (the error rule has no pattern: PLY hands it the unmatched rest of the text)
        t0 = time.time()
        node = src.find(c.func)
        name = '%s.pattern_is_the_specified_language' % c.id
        if node is None:
            out.append(_ob(name, False, {'clause': 'rule %s exists' % c.func}, t0, 'static'))
            continue
        doc = docstring_of(node)
        if doc is None:
            out.append(_ob(name, False, {'clause': 'rule %s has a pattern' % c.func}, t0, 'static'))
            continue
        if doc == spec[0]:
            out.append(_ob(name, True, {'clause': 'pattern %r' % doc}, t0, 'static'))
            continue
        (r1, la1), (r2, la2) = parse_regex(doc), parse_regex(spec[0])
        x = z3.String('x')
        sol = z3.Solver()
        sol.set('timeout', 20000)
        sol.add(z3.Xor(z3.InRe(x, r1), z3.InRe(x, r2)))
        res = sol.check()
        same_la = (la1 is None) == (la2 is None) and (la1 is None or z3.simplify(la1 == la2) is not None)
        if res == z3.unsat and same_la and (la1 is None or str(la1) == str(la2)):
            out.append(_ob(name, True, {'clause': 'L(%r) = L(%r)' % (doc, spec[0])}, t0))
        elif res == z3.sat:
            w = sol.model()[x].as_string()
            d = _ob(name, False, {'clause': 'L(%r) = L(%r)' % (doc, spec[0]), 'separating_lexeme': w}, t0,
                    witness={'lexeme': w, 'pattern': doc, 'specified': spec[0]})
            d['replay_code'] = (
                "if __name__ == '__main__':\n    import re, sys\n"
                "    from pysmi.lexer.smi import SmiV2Lexer\n"
                "    w = REPLAY['witness']\n"
                "    pat = SmiV2Lexer.%s.__doc__\n"
                "    a = re.fullmatch(pat, w['lexeme'], re.VERBOSE) is not None\n"
                "    b = re.fullmatch(w['specified'], w['lexeme'], re.VERBOSE) is not None\n"
                "    print('rule %s: pattern %%r %%s the lexeme %%r, the specified language %%r %%s it'\n"
                "          %% (pat, 'matches' if a else 'does not match', w['lexeme'], w['specified'],\n"
                "             'contains' if b else 'does not contain'))\n"
                "    sys.exit(10 if a != b else 0)\n" % (c.func.split('.')[-1], c.func.split('.')[-1]))
            out.append(d)
        else:
            d = _ob(name, False, {'clause': 'L(%r) = L(%r)' % (doc, spec[0]), 'solver': str(res)}, t0)
            d['verdict'] = 'unknown' if res != z3.unsat else 'refuted'
            out.append(d)
    return out


def c08_termination_lemma(world):
    """C08 terminates: the step clause of the work-list loop of compile (discharged from the code) says that an
    iteration either leaves the set of looked-up names S alone and shortens the work list, or looks up a name x of
    the finite universe U that is not in S and makes S' = S + {x}.  This lemma (finite sets with cardinality, cvc5)
    closes the argument: in the second case |U - S'| < |U - S| and |U - S'| >= 0, so the pair
    (|U - fetched|, len(mibsToParse)) decreases lexicographically in N x N on every iteration."""
    from .cvc5_backend import cvc5_check
    out = []
    head = ('(declare-const U (Set String))\n(declare-const S (Set String))\n(declare-const S2 (Set String))\n'
            '(declare-const x String)\n')
    hyp = ('(assert (set.member x U))\n(assert (not (set.member x S)))\n'
           '(assert (= S2 (set.union S (set.singleton x))))\n')
    goal = ('(assert (not (and (< (set.card (set.minus U S2)) (set.card (set.minus U S)))\n'
            '                  (>= (set.card (set.minus U S2)) 0))))\n')
    t0 = time.time()
    r, _ = cvc5_check(head + hyp + goal + '(check-sat)\n', 20000)
    d = _ob('lemma.C08_terminates.a_new_name_of_the_universe_shrinks_the_remaining_set', r == 'unsat',
            {'clause': 'x in U and x not in S and S2 = S + {x}  =>  0 <= |U - S2| < |U - S|', 'solver': r}, t0, 'cvc5')
    if r != 'unsat':
        d['verdict'] = 'unknown' if r == 'unknown' else 'refuted'
    out.append(d)
    # vacuity: the hypotheses are satisfiable, and without  x in U  the conclusion does not follow
    t0 = time.time()
    r1, _ = cvc5_check(head + hyp + '(check-sat)\n', 20000)
    r2, _ = cvc5_check(head + hyp.replace('(assert (set.member x U))\n', '') + goal + '(check-sat)\n', 20000)
    d = _ob('lemma.C08_terminates.not_vacuous', r1 == 'sat' and r2 == 'sat',
            {'clause': 'hypotheses satisfiable; conclusion fails without x in U', 'solver': [r1, r2]}, t0, 'cvc5')
    if not (r1 == 'sat' and r2 == 'sat'):
        d['verdict'] = 'error'
    out.append(d)
    return out


def run(pid, tier, seed, world):
    out = []
    try:
        if pid == 'C11':
            out += c11_lexer_class(world)
        if pid in ('C11', 'C02', 'C05'):
            out += [o for o in lexer_regex_spec(world)
                    if pid != 'C05' or 'NUMBER' in o['name'] or 'STRING' in o['name']]
        if pid == 'C08':
            out += c08_termination_lemma(world)
        if pid == 'C18':
            from .bounded.runner import obligations as bounded_obligations
            out += bounded_obligations(
                'bounded.genIndex', 'c18_genindex.py', tier, seed,
                "if __name__ == '__main__':\n    import sys\n    sys.path.insert(0, %r)\n"
                "    from pyvc.bounded import c18_genindex as H\n"
                "    sys.exit(H.replay(REPLAY['witness'], '%%(clause)s'))\n" % VERIF)
        if pid == 'C17':
            from .lockstep import c17_obligations
            out += c17_obligations(tier, seed)
        try:
            from . import extras_tables as T
            out += T.run(pid, tier, seed, world)
        except ImportError:
            pass
    except Unsupported as e:
        out.append({'name': 'extras.%s' % pid, 'verdict': 'unsupported', 'backend': '-', 't': 0, 'info': str(e)})
    return out
