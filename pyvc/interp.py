"""Symbolic executor for the Python subset used by the functions under contract."""
import ast
import z3
from . import pv
from .pv import (PV, SInt, SBool, SStr, SAny, VList, VDict, VSet, VObj, VKeys, VSeqIter, VFunc, VBound,
                 VClass, VModule, VBuiltin, VComp, Unsupported, lift, lower, truthy, veq, mkbool,
                 as_term_int, as_term_str, is_concrete)
from .explore import PathEnd
from .extract import SourceFile, is_debug_stmt, loops_of
from . import pybuiltins as B


class PyRaise(Exception):
    """A Python exception travelling through the analysed code."""

    def __init__(self, exc, line=None):
        self.exc = exc          # VObj (cls = exception class name)
        self.line = line


class ReturnSig(Exception):
    def __init__(self, value):
        self.value = value


class BreakSig(Exception):
    pass


class ContinueSig(Exception):
    pass


class Env:
    def __init__(self, parent=None, module=None, func=None):
        self.vars = {}
        self.parent = parent
        self.module = module if module is not None else (parent.module if parent else None)
        self.func = func

    def lookup(self, name):
        e = self
        while e is not None:
            if name in e.vars:
                return e.vars[name]
            e = e.parent
        raise KeyError(name)

    def has(self, name):
        e = self
        while e is not None:
            if name in e.vars:
                return True
            e = e.parent
        return False

    def set(self, name, v):
        self.vars[name] = v


UNBOUND = object()

# constants of the interpreter that runs the repository (CPython 3.12), recorded as data
EXTERNAL_CONSTANTS = {
    'importlib.machinery.SOURCE_SUFFIXES': ['.py'],
    'importlib.machinery.BYTECODE_SUFFIXES': ['.pyc'],
    'importlib.util.MAGIC_NUMBER': b'\xcb\r\r\n',
    'os.path.extsep': '.',
    'os.extsep': '.',
    'os.sep': '/',
    'os.F_OK': 0,
}

BUILTIN_EXC = {
    'BaseException': None, 'Exception': 'BaseException', 'KeyError': 'LookupError', 'IndexError': 'LookupError',
    'LookupError': 'Exception', 'TypeError': 'Exception', 'ValueError': 'Exception',
    'UnicodeEncodeError': 'UnicodeError', 'UnicodeError': 'ValueError',
    'AttributeError': 'Exception', 'OSError': 'Exception', 'IOError': 'Exception',
    'NotImplementedError': 'RuntimeError', 'RuntimeError': 'Exception', 'RecursionError': 'RuntimeError',
    'ImportError': 'Exception', 'StopIteration': 'Exception', 'SyntaxError': 'Exception',
    'ZeroDivisionError': 'ArithmeticError', 'ArithmeticError': 'Exception', 'AssertionError': 'Exception',
    'PyCompileError': 'Exception', 'SystemExit': 'BaseException', 'GetoptError': 'Exception',
    'LexError': 'Exception', 'TemplateError': 'Exception', 'KeyboardInterrupt': 'BaseException',
}
# IOError is an alias of OSError on Python 3
EXC_ALIAS = {'IOError': 'OSError', 'EnvironmentError': 'OSError'}


class World:
    """Modules of the tree under verification, loaded lazily from source."""

    def __init__(self):
        self.modules = {}
        self.contracts = {}     # qualified function name -> Contract (set by verify)
        self.models = {}        # dotted external name -> python callable(interp, args, kwargs)
        self.comp_models = {}   # (kind, method) -> callable(interp, comp, args, kwargs)
        self.exc_parents = dict(BUILTIN_EXC)
        self._preload_errors()

    def _preload_errors(self):
        """class hierarchy of pysmi/error.py, read from the AST of the tree under verification"""
        try:
            src = SourceFile.get('pysmi/error.py')
        except OSError:
            return
        for st in src.tree.body:
            if isinstance(st, ast.ClassDef) and st.bases:
                self.exc_parents[st.name] = ast.unparse(st.bases[0]).split('.')[-1]

    def module(self, dotted):
        if dotted in self.modules:
            return self.modules[dotted]
        rel = dotted.replace('.', '/')
        import os
        from .extract import REPO
        for cand in (rel + '.py', rel + '/__init__.py'):
            if os.path.exists(os.path.join(REPO, cand)):
                m = ModuleNS(self, dotted, SourceFile.get(cand))
                self.modules[dotted] = m
                return m
        return None

    def module_for_file(self, relpath):
        dotted = relpath[:-3].replace('/', '.')
        if dotted.endswith('.__init__'):
            dotted = dotted[:-9]
        return self.module(dotted)

    def exc_isa(self, cls, target):
        cls = EXC_ALIAS.get(cls, cls)
        target = EXC_ALIAS.get(target, target)
        seen = 0
        while cls is not None and seen < 50:
            if cls == target:
                return True
            cls = self.exc_parents.get(cls)
            cls = EXC_ALIAS.get(cls, cls)
            seen += 1
        return False


class ModuleNS:
    """Global namespace of one repo module; names resolved lazily from the module AST."""

    def __init__(self, world, dotted, src):
        self.world, self.dotted, self.src = world, dotted, src
        self.cache = {}
        self.defs = {}
        self._index(src.tree.body)

    def _index(self, body):
        for st in body:
            if isinstance(st, (ast.FunctionDef, ast.ClassDef)):
                self.defs[st.name] = st
            elif isinstance(st, ast.Import):
                for a in st.names:
                    self.defs[(a.asname or a.name).split('.')[0]] = ('import', a.name if a.asname else a.name.split('.')[0])
            elif isinstance(st, ast.ImportFrom):
                for a in st.names:
                    self.defs[a.asname or a.name] = ('from', st.module, a.name)
            elif isinstance(st, ast.Assign):
                for t in st.targets:
                    if isinstance(t, ast.Name):
                        self.defs[t.id] = ('assign', st.value)
                    elif isinstance(t, ast.Tuple):
                        for i, e in enumerate(t.elts):
                            if isinstance(e, ast.Name):
                                self.defs[e.id] = ('assign_unpack', st.value, i)
            elif isinstance(st, ast.Try):
                self._index(st.body)
            elif isinstance(st, ast.If):
                c = fold_version_test(st.test)
                if c is True:
                    self._index(st.body)
                elif c is False:
                    self._index(st.orelse)
                # other module-level ifs (e.g. __main__ guards) are ignored

    def lookup(self, name, interp):
        if name in self.cache:
            return self.cache[name]
        if name not in self.defs:
            raise KeyError(name)
        d = self.defs[name]
        v = self._resolve(name, d, interp)
        self.cache[name] = v
        return v

    def _resolve(self, name, d, interp):
        w = self.world
        if isinstance(d, ast.FunctionDef):
            return VFunc(d, Env(module=self), name, module=self)
        if isinstance(d, ast.ClassDef):
            return interp.make_class(d, self)
        kind = d[0]
        if kind == 'import':
            m = w.module(d[1])
            return VModule(d[1]) if m is None else VModule(d[1], {'__ns__': m})
        if kind == 'from':
            modname, attr = d[1], d[2]
            sub = w.module(modname + '.' + attr)
            if sub is not None:
                return VModule(modname + '.' + attr, {'__ns__': sub})
            m = w.module(modname)
            if m is not None:
                if attr in m.defs:
                    return m.lookup(attr, interp)
                if attr in ('__name__',):
                    return modname
                if attr == '__version__':
                    return '0.0.0'
            return interp.external(modname + '.' + attr)
        if kind == 'assign':
            return interp.eval_concrete(d[1], Env(module=self))
        if kind == 'assign_unpack':
            v = interp.eval_concrete(d[1], Env(module=self))
            return interp.getitem(v, d[2])
        raise Unsupported('module-level definition of %s' % name)


def fold_version_test(test):
    """Constant-fold interpreter / PLY version tests (CPython 3.12, PLY 3.11). None = not such a test."""
    src = ast.unparse(test)
    table = {
        'sys.version_info[0] > 2': True, 'sys.version_info[0] < 3': False,
        'sys.version_info[0:2] < (2, 5)': False, 'sys.version_info[0:2] > (3, 1)': True,
        'LEX_VERSION < [3, 0]': False, 'YACC_VERSION < [3, 0]': False,
        'sys.version_info[0] <= 2': False, 'sys.version_info[0] == 2': False,
        'sys.version_info[:2] < (2, 5)': False,
    }
    return table.get(src)


MUTATORS = {'append', 'extend', 'pop', 'add', 'update', 'remove', 'clear', 'insert', 'sort', 'setdefault',
            'popitem', 'discard', 'reverse'}


class Interp:
    def __init__(self, world, ctx, contract=None):
        self.world = world
        self.ctx = ctx
        self.contract = contract        # contract of the function being verified (loop specs, inline list)
        self.fn_node = None
        self.loop_frames = []
        self.exc_stack = []             # exceptions being handled (sys.exc_info)
        self.call_depth = 0
        self.loop_ids = {}
        pv_alloc_reset()

    # ------------------------------------------------------------------ utilities
    def fresh_any(self, hint='a'):
        t = self.ctx.fresh(PV, hint)
        self.ctx.assume(t != pv.PAbsent)       # PAbsent is the engine's "no value" marker, never a Python value
        return SAny(t)

    def fresh_str(self, hint='s'):
        return SStr(self.ctx.fresh(z3.StringSort(), hint))

    def fresh_int(self, hint='i'):
        return SInt(self.ctx.fresh(z3.IntSort(), hint))

    def fresh_bool(self, hint='b'):
        return SBool(self.ctx.fresh(z3.BoolSort(), hint))

    def spec(self):
        return self.ctx.spec_depth > 0

    def raise_py(self, clsname, msg='', line=None, **fields):
        e = VObj(clsname, dict(fields))
        e.fields.setdefault('msg', msg)
        e.fields.setdefault('args', (msg,))
        raise PyRaise(e, line)

    def test(self, v, label=''):
        """Python truth test with forking."""
        t = truthy(v)
        if isinstance(t, bool):
            return t
        return self.ctx.branch(t.t, label)

    def external(self, dotted):
        if dotted == 'sys.version':
            return self.fresh_str('sys.version')
        if dotted in EXTERNAL_CONSTANTS:
            from .contract import _const
            return _const(EXTERNAL_CONSTANTS[dotted])
        if dotted in self.world.models:
            return VBuiltin(dotted, self.world.models[dotted])
        return VModule(dotted)

    def mutating(self, obj, attr=None):
        """Hook called before every mutation of a heap object (frame check for cut loops)."""
        if getattr(obj, 'frozen', False):
            raise Unsupported('mutation of a value already stored in a symbolic container (by-value snapshot)')
        for fr in self.loop_frames:
            if getattr(obj, 'born', 0) < fr['entry_alloc']:
                if id(obj) in fr['havocked']:
                    continue
                if attr is not None and (id(obj), attr) in fr['havocked_fields']:
                    continue
                raise Unsupported('mutation inside a cut loop of an object outside its computed modification set '
                                  '(%s%s)' % (type(obj).__name__, '.' + attr if attr else ''))

    # ------------------------------------------------------------------ classes
    def make_class(self, node, modns):
        bases = []
        for b in node.bases:
            try:
                bv = self.eval_concrete(b, Env(module=modns))
            except (KeyError, Unsupported):
                bv = None
            if isinstance(bv, VClass):
                bases.append(bv)
            else:
                bases.append(VClass(ast.unparse(b).split('.')[-1]))
        cls = VClass(node.name, node, bases, modns)
        # exception hierarchy
        if bases:
            self.world.exc_parents.setdefault(node.name, bases[0].name)
        cls.attrs = None     # evaluated lazily
        return cls

    def class_attrs(self, cls):
        if cls.attrs is None:
            cls.attrs = {}
            if cls.node is not None:
                env = Env(module=cls.module)
                env.vars = cls.attrs
                saved = self.ctx.spec_depth
                for st in cls.node.body:
                    if isinstance(st, ast.FunctionDef):
                        static = any(isinstance(d, ast.Name) and d.id == 'staticmethod' for d in st.decorator_list)
                        f = VFunc(st, Env(module=cls.module), st.name, owner=cls, module=cls.module)
                        f.static = static
                        cls.attrs[st.name] = f
                    elif isinstance(st, ast.Expr) and isinstance(st.value, ast.Constant):
                        continue
                    else:
                        self.exec_stmt(st, env)
        return cls.attrs

    def class_lookup(self, cls, name):
        """MRO lookup (single inheritance chains + mixins left to right)."""
        seen = []
        stack = [cls]
        while stack:
            c = stack.pop(0)
            if c in seen:
                continue
            seen.append(c)
            a = self.class_attrs(c)
            if name in a:
                return a[name], c
            stack = list(c.bases) + stack
        return UNBOUND, None

    def class_isa(self, cls, target_name):
        stack = [cls]
        while stack:
            c = stack.pop()
            if c.name == target_name:
                return True
            stack.extend(c.bases)
        return self.world.exc_isa(cls.name, target_name)

    def find_class(self, name):
        for m in self.world.modules.values():
            if name in m.defs and isinstance(m.defs[name], ast.ClassDef):
                return m.lookup(name, self)
        return None

    def obj_isa(self, obj, target_name):
        if obj.vclass is None:
            obj.vclass = self.find_class(obj.cls)
        if obj.vclass is not None:
            return self.class_isa(obj.vclass, target_name)
        return self.world.exc_isa(obj.cls, target_name)

    def instantiate(self, cls, args, kwargs, line=None):
        if cls.name == 'OrderedDict' or cls.name == 'dict':
            return B.make_dict(self, args, kwargs, ordered=cls.name)
        obj = VObj(cls.name)
        obj.vclass = cls
        obj.born = pv_alloc()
        # str subclasses (MibStatus)
        if self.class_isa(cls, 'str'):
            obj.strval = args[0].strval if args and isinstance(args[0], VObj) and args[0].strval is not None \
                else (args[0] if args else '')
            init, _ = UNBOUND, None
        else:
            init, owner = self.class_lookup(cls, '__init__')
        if init is not UNBOUND:
            self.inline_call(init, [obj] + list(args), kwargs, line)
        elif self.class_isa(cls, 'BaseException') or cls.name in BUILTIN_EXC:
            obj.fields['args'] = tuple(args)
            for k, v in kwargs.items():
                obj.fields[k] = v
        # class-level data attributes are visible through the instance: materialise the (immutable) defaults
        # so that a by-value snapshot of the object keeps them
        stack = [cls]
        while stack:
            c = stack.pop(0)
            if c.node is not None:
                for k, v in self.class_attrs(c).items():
                    if k not in obj.fields and not k.startswith('__') and pv.is_concrete(v):
                        obj.fields[k] = v
            stack.extend(c.bases)
        return obj

    # ------------------------------------------------------------------ statements
    def exec_block(self, stmts, env):
        for st in stmts:
            self.exec_stmt(st, env)

    def exec_stmt(self, st, env):
        self.ctx.tick()
        m = getattr(self, 'st_' + type(st).__name__, None)
        if m is None:
            raise Unsupported('statement %s at line %s' % (type(st).__name__, getattr(st, 'lineno', '?')))
        return m(st, env)

    def st_Expr(self, st, env):
        if is_debug_stmt(st):
            return
        if isinstance(st.value, ast.Constant):
            return
        self.eval(st.value, env)

    def st_Pass(self, st, env):
        pass

    def st_Global(self, st, env):
        env.globals_decl = getattr(env, 'globals_decl', set()) | set(st.names)

    def st_Import(self, st, env):
        for a in st.names:
            env.set((a.asname or a.name).split('.')[0], self.external(a.name))

    def st_ImportFrom(self, st, env):
        for a in st.names:
            env.set(a.asname or a.name, self.external(st.module + '.' + a.name))

    def st_FunctionDef(self, st, env):
        f = VFunc(st, env, st.name, module=env.module)
        f.nested = True
        env.set(st.name, f)

    def st_Return(self, st, env):
        v = self.eval(st.value, env) if st.value is not None else None
        c = self.contract
        if c is not None and c.at_return and self.call_depth == 0 and self.fn_node is not None:
            rets = [n for n in ast.walk(self.fn_node) if isinstance(n, ast.Return)]
            rets.sort(key=lambda n: (n.lineno, n.col_offset))
            k = [i + 1 for i, n in enumerate(rets) if n is st]
            if k and k[0] in c.at_return:
                from .apply import spec_bool
                env.set('result', v)
                for name, ex in c.at_return[k[0]].items():
                    self.ctx.oblige('%s.return%d.%s' % (c.id, k[0], name), spec_bool(self, ex, env), st.lineno,
                                    'at-return', info={'clause': ex})
        raise ReturnSig(v)

    def st_Break(self, st, env):
        raise BreakSig()

    def st_Continue(self, st, env):
        raise ContinueSig()

    def st_Assign(self, st, env):
        v = self.eval(st.value, env)
        for t in st.targets:
            self.assign(t, v, env)

    def st_AugAssign(self, st, env):
        tgt = st.target
        if isinstance(tgt, ast.Name):
            cur = self.eval(ast.Name(id=tgt.id, ctx=ast.Load()), env)
        elif isinstance(tgt, ast.Attribute):
            base = self.eval(tgt.value, env)
            cur = self.getattr(base, tgt.attr, st.lineno)
        elif isinstance(tgt, ast.Subscript):
            base = self.eval(tgt.value, env)
            idx = self.eval_index(tgt.slice, env)
            cur = self.getitem(base, idx, st.lineno)
        else:
            raise Unsupported('augmented assignment target')
        rhs = self.eval(st.value, env)
        if isinstance(st.op, ast.Add) and isinstance(cur, SAny) and getattr(cur, 'shared_from', None) is not None \
                and not self.spec():
            # `x += y` extends a list IN PLACE.  x was read out of a container: if it is a list, the container's
            # own value changes - a frame violation unless the contract lists that container under assigns.
            allowed = [n for n in (self.contract.notes if self.contract else []) if n.startswith('inplace_extension_allowed')]
            if allowed:
                self.ctx.note('ASSUMED ' + allowed[0])
            elif self.ctx.feasible(PV.is_PList(cur.t)):
                fid = self.contract.id if self.contract else '?'
                self.ctx.oblige('%s.frame.no_inplace_extension_of_shared_list@L%s' % (fid, st.lineno),
                                z3.Not(PV.is_PList(cur.t)), st.lineno, 'frame',
                                info={'clause': 'a list read from a container is not extended in place (+=)'})
        # in-place list extension keeps identity
        if isinstance(st.op, ast.Add) and isinstance(cur, VList):
            B.list_extend(self, cur, rhs)
            new = cur
        elif isinstance(st.op, ast.Add) and isinstance(cur, SAny) and not self.spec() and \
                isinstance(rhs, (tuple, VList, pv.VSeqIter)) and not self.ctx.feasible(z3.Not(PV.is_PList(cur.t))):
            # list += iterable  extends the list (list + tuple would be a TypeError, += is not)
            new = SAny(PV.PList(z3.Concat(PV.litems(cur.t), self.seq_term(rhs, st.lineno))))
        else:
            new = self.binop(st.op, cur, rhs, st.lineno)
        if isinstance(tgt, ast.Name):
            self.assign(tgt, new, env)
        elif isinstance(tgt, ast.Attribute):
            self.setattr(base, tgt.attr, new)
        else:
            self.setitem(base, idx, new, st.lineno)

    def st_Delete(self, st, env):
        for t in st.targets:
            if isinstance(t, ast.Subscript):
                base = self.eval(t.value, env)
                idx = self.eval_index(t.slice, env)
                self.delitem(base, idx, st.lineno)
            elif isinstance(t, ast.Name):
                env.vars.pop(t.id, None)
            else:
                raise Unsupported('del target')

    def _pure_expr(self, e):
        if isinstance(e, (ast.Name, ast.Constant)):
            return True
        if isinstance(e, ast.Attribute):
            return self._pure_expr(e.value)
        if isinstance(e, ast.Subscript):
            return self._pure_expr(e.value) and isinstance(e.slice, ast.Constant)
        if isinstance(e, ast.BoolOp):
            return all(self._pure_expr(v) for v in e.values)
        if isinstance(e, ast.UnaryOp) and isinstance(e.op, ast.Not):
            return self._pure_expr(e.operand)
        return False

    def try_if_conversion(self, st, env):
        """``if <pure test>: d['k'] = <pure value>`` (no else) is executed without forking: the entry becomes
        conditionally present.  Keeps handlers with many optional members from splitting into 2^n paths."""
        if st.orelse or len(st.body) != 1 or self.spec():
            return False
        b = st.body[0]
        if not (isinstance(b, ast.Assign) and len(b.targets) == 1 and isinstance(b.targets[0], ast.Subscript)
                and isinstance(b.targets[0].slice, ast.Constant) and isinstance(b.targets[0].slice.value, str)
                and isinstance(b.targets[0].value, ast.Name) and self._pure_expr(b.value)
                and self._pure_expr(st.test)):
            return False
        try:
            d = env.lookup(b.targets[0].value.id)
        except KeyError:
            return False
        if not isinstance(d, VDict):
            return False
        self.ctx.spec_depth += 1
        try:
            try:
                c = truthy(self.eval(st.test, env))
                if isinstance(c, bool):
                    return False
                v = self.eval(b.value, env)
            except (PyRaise, Unsupported):
                return False
        finally:
            self.ctx.spec_depth -= 1
        self.mutating(d)
        d.make_symbolic()
        k = z3.StringVal(b.targets[0].slice.value)
        d.arr = z3.Store(d.arr, k, z3.If(c.t, lift(v), d.arr[k]))
        return True

    def st_If(self, st, env):
        if self.try_if_conversion(st, env):
            return
        c = fold_version_test(st.test)
        if c is None:
            c = self.test(self.eval(st.test, env), 'if@%d' % st.lineno)
        if c:
            self.exec_block(st.body, env)
        else:
            self.exec_block(st.orelse, env)

    def st_Raise(self, st, env):
        if st.exc is None:
            if not self.exc_stack:
                self.raise_py('RuntimeError', 'No active exception to reraise', st.lineno)
            raise PyRaise(self.exc_stack[-1], st.lineno)
        v = self.eval(st.exc, env)
        if isinstance(v, VClass):
            v = self.instantiate(v, [], {}, st.lineno)
        if not isinstance(v, VObj):
            raise Unsupported('raise of non-object %r' % (v,))
        raise PyRaise(v, st.lineno)

    def st_Assert(self, st, env):
        if not self.test(self.eval(st.test, env)):
            self.raise_py('AssertionError', '', st.lineno)

    def st_Try(self, st, env):
        try:
            try:
                self.exec_block(st.body, env)
            except PyRaise as pr:
                handled = False
                for h in st.handlers:
                    if self.handler_matches(h, pr.exc, env):
                        handled = True
                        if h.name:
                            env.set(h.name, pr.exc)
                        self.exc_stack.append(pr.exc)
                        try:
                            self.exec_block(h.body, env)
                        finally:
                            self.exc_stack.pop()
                        break
                if not handled:
                    raise
            else:
                self.exec_block(st.orelse, env)
        finally:
            # NB: a 'finally' block runs on every exit incl. engine signals that model Python control flow
            if st.finalbody:
                import sys as _sys
                et = _sys.exc_info()[0]
                if et is None or issubclass(et, (PyRaise, ReturnSig, BreakSig, ContinueSig)):
                    self.exec_block(st.finalbody, env)

    def st_With(self, st, env):
        """with <expr> [as name]: <body>  for context managers the models provide (file objects): enter, run the body,
        leave - on every exit of the body, normal or exceptional"""
        if len(st.items) != 1:
            raise Unsupported('with statement with several items')
        mgr = self.eval(st.items[0].context_expr, env)
        enter, leave = getattr(mgr, 'with_enter', None), getattr(mgr, 'with_exit', None)
        if enter is None or leave is None:
            raise Unsupported('with statement over %r at line %d' % (mgr, st.lineno))
        v = enter(self)
        if st.items[0].optional_vars is not None:
            self.assign(st.items[0].optional_vars, v, env)
        try:
            self.exec_block(st.body, env)
        except (PyRaise, ReturnSig, BreakSig, ContinueSig):
            try:
                leave(self)
            except PyRaise:
                pass            # an error while closing during unwinding: the original exception propagates
            raise
        leave(self)

    def handler_matches(self, h, exc, env):
        if h.type is None:
            return True
        types = h.type.elts if isinstance(h.type, ast.Tuple) else [h.type]
        for t in types:
            name = ast.unparse(t).split('.')[-1]
            if self.obj_isa(exc, name):
                return True
        return False

    def st_While(self, st, env):
        spec = self.loop_spec(st)
        if spec is None:
            # concrete unrolling
            n = 0
            while True:
                if not self.test(self.eval(st.test, env), 'while@%d' % st.lineno):
                    self.exec_block(st.orelse, env)
                    return
                try:
                    self.exec_block(st.body, env)
                except BreakSig:
                    return
                except ContinueSig:
                    pass
                n += 1
                if n > self.ctx.limits.get('unroll', 64):
                    raise Unsupported('while loop at line %d needs an invariant (unrolled %d times)' % (st.lineno, n))
        else:
            from .loops import cut_loop
            cut_loop(self, st, env, spec, None)

    def st_For(self, st, env):
        it = self.eval(st.iter, env)
        items = B.concrete_items(self, it)
        if items is None and isinstance(it, SAny) and not self.spec():
            # iteration over an untyped value: strings iterate their characters, None / numbers raise
            if self.ctx.branch(PV.is_PStr(it.t), 'iter-str@%s' % st.lineno):
                it = SStr(PV.s(it.t))
            elif not self.ctx.branch(z3.Or(PV.is_PList(it.t), PV.is_PTuple(it.t)), 'iter-seq@%s' % st.lineno):
                self.raise_py('TypeError', 'object is not iterable', st.lineno)
        if items is not None:
            for x in items:
                self.assign(st.target, x, env)
                try:
                    self.exec_block(st.body, env)
                except BreakSig:
                    return
                except ContinueSig:
                    continue
            self.exec_block(st.orelse, env)
            return
        spec = self.loop_spec(st)
        if spec is None:
            raise Unsupported('for loop over a symbolic collection at line %d needs an invariant' % st.lineno)
        from .loops import cut_loop
        cut_loop(self, st, env, spec, it)

    def loop_spec(self, node):
        if self.contract is None or self.fn_node is None:
            return None
        if id(self.fn_node) not in self.loop_ids:
            self.loop_ids[id(self.fn_node)] = {id(n): i + 1 for i, n in enumerate(loops_of(self.fn_node))}
        k = self.loop_ids[id(self.fn_node)].get(id(node))
        if k is None:
            return None
        sp = self.contract.loops.get(k)
        if sp is not None:
            sp = dict(sp)
            sp['ordinal'] = k
        return sp

    # ------------------------------------------------------------------ assignment
    def assign(self, tgt, v, env):
        if isinstance(tgt, ast.Name):
            if tgt.id in getattr(env, 'globals_decl', ()):
                e = env
                while e.parent is not None:
                    e = e.parent
                e.vars[tgt.id] = v
            else:
                env.set(tgt.id, v)
        elif isinstance(tgt, (ast.Tuple, ast.List)):
            items = self.unpack(v, len(tgt.elts), getattr(tgt, 'lineno', None))
            for t, x in zip(tgt.elts, items):
                self.assign(t, x, env)
        elif isinstance(tgt, ast.Attribute):
            self.setattr(self.eval(tgt.value, env), tgt.attr, v)
        elif isinstance(tgt, ast.Subscript):
            base = self.eval(tgt.value, env)
            self.setitem(base, self.eval_index(tgt.slice, env), v, getattr(tgt, 'lineno', None))
        else:
            raise Unsupported('assignment target %s' % type(tgt).__name__)

    def unpack(self, v, n, line=None):
        if isinstance(v, tuple):
            items = list(v)
        elif isinstance(v, VList) and not v.symbolic:
            items = list(v.items)
        elif isinstance(v, (SAny, VList, VSeqIter)):
            seq = self.seq_term(v, line)
            ok = z3.Length(seq) == n
            if not self.ctx.branch(ok, 'unpack@%s' % line):
                self.raise_py('ValueError', 'unpack arity', line)
            return [B.taint(lower(seq[i]), v) for i in range(n)]
        elif isinstance(v, VDict) and not v.symbolic:
            items = list(v.keys)
        else:
            raise Unsupported('unpacking %r' % (v,))
        if len(items) != n:
            self.raise_py('ValueError', 'unpack arity', line)
        return items

    def seq_term(self, v, line=None):
        """Seq PyVal term of a tuple/list value (forks / raises TypeError for other SAny shapes)."""
        if isinstance(v, VList):
            return v.to_seq()
        if isinstance(v, VSeqIter):
            return v.to_seq()
        if isinstance(v, tuple):
            return pv.seq_of([lift(x) for x in v])
        if isinstance(v, SAny):
            if self.spec():
                return z3.If(PV.is_PTuple(v.t), PV.titems(v.t), PV.litems(v.t))
            if self.ctx.branch(PV.is_PTuple(v.t), 'istuple@%s' % line):
                return PV.titems(v.t)
            if self.ctx.branch(PV.is_PList(v.t), 'islist@%s' % line):
                return PV.litems(v.t)
            self.raise_py('TypeError', 'not a sequence', line)
        if isinstance(v, pv.VKeys):
            return pv.members_facts(self.ctx, v.arr, False)
        if isinstance(v, pv.VSet) and v.symbolic:
            return pv.members_facts(self.ctx, v.to_arr(), True)
        raise Unsupported('not a sequence: %r' % (v,))

    # ------------------------------------------------------------------ attributes
    def getattr(self, base, attr, line=None, default=UNBOUND):
        if isinstance(base, VObj):
            if attr in base.fields:
                return base.fields[attr]
            if attr == '__class__':
                if base.vclass is None:
                    base.vclass = self.find_class(base.cls)
                return base.vclass
            if base.vclass is None:
                base.vclass = self.find_class(base.cls)
            if base.vclass is not None:
                v, owner = self.class_lookup(base.vclass, attr)
                if v is not UNBOUND:
                    if isinstance(v, VFunc) and not getattr(v, 'static', False):
                        return VBound(v, base)
                    return v
            hook = getattr(base, 'attr_hook', None)
            if hook is not None:
                r = hook(self, base, attr)
                if r is not UNBOUND:
                    return r
            if default is not UNBOUND:
                return default
            if self.spec():
                return SAny(pv.PAbsent)
            self.raise_py('AttributeError', attr, line)
        if isinstance(base, VModule):
            if attr in base.attrs:
                return base.attrs[attr]
            ns = base.attrs.get('__ns__')
            if ns is not None:
                try:
                    return ns.lookup(attr, self)
                except KeyError:
                    self.raise_py('AttributeError', attr, line)
            return self.external(base.name + '.' + attr)
        if isinstance(base, VClass):
            if attr == '__name__':
                return base.name
            v, owner = self.class_lookup(base, attr)
            if v is not UNBOUND:
                return v
            if base.name in ('Exception', 'object') and attr == '__init__':
                return VBuiltin('object.__init__', lambda it, a, k: None)
            if default is not UNBOUND:
                return default
            self.raise_py('AttributeError', attr, line)
        if isinstance(base, VFunc):
            if attr in ('__name__', 'func_name'):
                return base.name
            if attr == '__doc__':
                return ast.get_docstring(base.node, clean=False)
        if isinstance(base, VComp):
            if attr in base.fields:
                return base.fields[attr]
            return VBound(('comp', attr), base)
        if isinstance(base, SAny):
            fld = PV.flds(base.t)[z3.StringVal(attr)]
            if self.spec():
                if default is not UNBOUND:
                    return lower(z3.If(z3.Or(z3.Not(PV.is_PObj(base.t)), fld == pv.PAbsent), lift(default), fld))
                return lower(fld)
            isobj = self.ctx.branch(PV.is_PObj(base.t), 'isobj@%s' % line)
            if isobj and self.ctx.branch(fld != pv.PAbsent, 'hasattr@%s' % line):
                return lower(fld)
            if default is not UNBOUND:
                return default
            self.raise_py('AttributeError', attr, line)
        # methods of builtin types are handled by call_method; as values they are bound lazily
        return VBound(('method', attr), base)

    def setattr(self, base, attr, v):
        if isinstance(base, VObj):
            self.mutating(base, attr)
            base.fields[attr] = v
            return
        if isinstance(base, VComp):
            base.fields[attr] = v
            return
        raise Unsupported('attribute store on %r' % (base,))

    # ------------------------------------------------------------------ subscripts
    def eval_index(self, sl, env):
        if isinstance(sl, ast.Slice):
            return ('slice',
                    self.eval(sl.lower, env) if sl.lower is not None else None,
                    self.eval(sl.upper, env) if sl.upper is not None else None,
                    self.eval(sl.step, env) if sl.step is not None else None)
        return self.eval(sl, env)

    def getitem(self, base, idx, line=None):
        return B.getitem(self, base, idx, line)

    def setitem(self, base, idx, v, line=None):
        return B.setitem(self, base, idx, v, line)

    def delitem(self, base, idx, line=None):
        return B.delitem(self, base, idx, line)

    # ------------------------------------------------------------------ expressions
    def eval_concrete(self, e, env):
        return self.eval(e, env)

    def eval(self, e, env):
        self.ctx.tick()
        m = getattr(self, 'ex_' + type(e).__name__, None)
        if m is None:
            raise Unsupported('expression %s at line %s' % (type(e).__name__, getattr(e, 'lineno', '?')))
        return m(e, env)

    def ex_Constant(self, e, env):
        return e.value

    def ex_Name(self, e, env):
        try:
            v = env.lookup(e.id)
            if v is UNBOUND:
                raise Unsupported('variable %s may be unbound after a cut loop (line %s)' % (e.id, e.lineno))
            return v
        except KeyError:
            pass
        if env.module is not None:
            try:
                return env.module.lookup(e.id, self)
            except KeyError:
                pass
        v = B.builtin_name(self, e.id)
        if v is UNBOUND and e.id == '__file__' and env.module is not None:
            # the module's own path: some absolute path ending in the module's file name (installation prefix unknown)
            return '/<site>/' + env.module.dotted.replace('.', '/') + '.py'
        if v is UNBOUND:
            raise Unsupported('unknown name %s at line %s' % (e.id, getattr(e, 'lineno', '?')))
        return v

    def ex_Tuple(self, e, env):
        out = []
        for x in e.elts:
            if isinstance(x, ast.Starred):
                out.extend(B.concrete_items_strict(self, self.eval(x.value, env)))
            else:
                out.append(self.eval(x, env))
        return tuple(out)

    def ex_List(self, e, env):
        out = []
        for x in e.elts:
            if isinstance(x, ast.Starred):
                out.extend(B.concrete_items_strict(self, self.eval(x.value, env)))
            else:
                out.append(self.eval(x, env))
        l = VList(out)
        l.born = pv_alloc()
        return l

    def ex_Set(self, e, env):
        s = VSet([])
        s.born = pv_alloc()
        for x in e.elts:
            B.set_add(self, s, self.eval(x, env))
        return s

    def ex_Dict(self, e, env):
        d = VDict()
        d.born = pv_alloc()
        for k, v in zip(e.keys, e.values):
            if k is None:
                B.dict_update(self, d, self.eval(v, env))
            else:
                B.dict_store(self, d, self.eval(k, env), self.eval(v, env))
        return d

    def ex_Attribute(self, e, env):
        return self.getattr(self.eval(e.value, env), e.attr, e.lineno)

    def ex_Subscript(self, e, env):
        base = self.eval(e.value, env)
        return self.getitem(base, self.eval_index(e.slice, env), e.lineno)

    def ex_UnaryOp(self, e, env):
        v = self.eval(e.operand, env)
        if isinstance(e.op, ast.Not):
            t = truthy(v)
            if isinstance(t, bool):
                return not t
            return mkbool(z3.Not(t.t))
        if isinstance(e.op, ast.USub):
            if isinstance(v, int):
                return -v
            return SInt(-as_term_int(v))
        if isinstance(e.op, ast.UAdd):
            return v
        raise Unsupported('unary op')

    def ex_BoolOp(self, e, env):
        is_and = isinstance(e.op, ast.And)
        if self.spec():
            # logical connective
            terms = []
            for x in e.values:
                t = truthy(self.eval(x, env))
                if isinstance(t, bool):
                    if is_and and not t:
                        return False
                    if not is_and and t:
                        return True
                    continue
                terms.append(t.t)
            if not terms:
                return is_and
            return mkbool(z3.And(*terms) if is_and else z3.Or(*terms))
        # operand-returning semantics with short circuit
        v = None
        for i, x in enumerate(e.values):
            v = self.eval(x, env)
            if i == len(e.values) - 1:
                return v
            t = self.test(v, 'boolop@%d' % e.lineno)
            if is_and and not t:
                return v
            if not is_and and t:
                return v
        return v

    def ex_IfExp(self, e, env):
        c = self.eval(e.test, env)
        if self.spec():
            t = truthy(c)
            if isinstance(t, bool):
                return self.eval(e.body if t else e.orelse, env)
            a, b = self.eval(e.body, env), self.eval(e.orelse, env)
            return B.ite(self, t.t, a, b)
        if self.test(c, 'ifexp@%d' % e.lineno):
            return self.eval(e.body, env)
        return self.eval(e.orelse, env)

    def ex_Compare(self, e, env):
        left = self.eval(e.left, env)
        terms = []
        for op, rx in zip(e.ops, e.comparators):
            right = self.eval(rx, env)
            r = B.compare(self, op, left, right, e.lineno)
            if r is False:
                return False
            if r is not True:
                terms.append(r.t)
                if not self.spec() and len(e.ops) > 1:
                    pass
            left = right
        if not terms:
            return True
        return mkbool(z3.And(*terms) if len(terms) > 1 else terms[0])

    def ex_BinOp(self, e, env):
        return self.binop(e.op, self.eval(e.left, env), self.eval(e.right, env), e.lineno)

    def binop(self, op, a, b, line=None):
        return B.binop(self, op, a, b, line)

    def ex_Lambda(self, e, env):
        f = VFunc(e, env, '<lambda>', module=env.module)
        f.nested = True
        return f

    def ex_JoinedStr(self, e, env):
        return B.opaque_format(self, 'fstring', [self.eval(v.value, env) for v in e.values
                                                 if isinstance(v, ast.FormattedValue)])

    def ex_ListComp(self, e, env):
        return B.comprehension(self, e, env, 'list')

    def ex_GeneratorExp(self, e, env):
        return B.comprehension(self, e, env, 'gen')

    def ex_SetComp(self, e, env):
        return B.comprehension(self, e, env, 'set')

    def ex_DictComp(self, e, env):
        return B.comprehension(self, e, env, 'dict')

    def ex_Starred(self, e, env):
        raise Unsupported('starred expression')

    def ex_Call(self, e, env):
        line = getattr(e, 'lineno', None)
        f = e.func
        # spec helpers get the raw AST (old, pre, forall, implies ... evaluate their arguments themselves)
        if isinstance(f, ast.Name) and self.spec() and f.id in B.SPEC_FORMS and not env.has(f.id):
            return B.SPEC_FORMS[f.id](self, e, env)
        # positional / keyword arguments
        args = []
        for a in e.args:
            if isinstance(a, ast.Starred):
                sv = self.eval(a.value, env)
                items = B.concrete_items(self, sv)
                if items is None:
                    # *t for a tuple of symbolic shape: its arity must fill the callee's remaining positionals
                    n = self.remaining_positionals(e, env, len(args))
                    items = self.unpack(sv, n, line)
                args.extend(items)
            else:
                args.append(self.eval(a, env))
        kwargs = {}
        for k in e.keywords:
            if k.arg is None:
                d = self.eval(k.value, env)
                if isinstance(d, VDict) and not d.symbolic:
                    for kk in d.keys:
                        kwargs[kk] = d.vals[kk]
                elif isinstance(d, VDict) and getattr(d, 'kwkeys', None) is not None:
                    kwargs['**'] = d
                else:
                    raise Unsupported('** of a symbolic mapping at line %d' % line)
            else:
                kwargs[k.arg] = self.eval(k.value, env)
        if isinstance(f, ast.Attribute):
            # super(X, self).m(...)
            if isinstance(f.value, ast.Call) and isinstance(f.value.func, ast.Name) and f.value.func.id == 'super':
                sargs = [self.eval(a, env) for a in f.value.args]
                cls, obj = sargs[0], sargs[1]
                for b in cls.bases:
                    v, owner = self.class_lookup(b, f.attr)
                    if v is not UNBOUND:
                        return self.call_function(v, [obj] + args, kwargs, line)
                raise Unsupported('super().%s' % f.attr)
            base = self.eval(f.value, env)
            return self.call_method(base, f.attr, args, kwargs, line)
        fn = self.eval(f, env)
        return self.call_value(fn, args, kwargs, line)

    def remaining_positionals(self, e, env, have):
        f = e.func
        target = None
        if isinstance(f, ast.Attribute):
            base = self.eval(f.value, env)
            if isinstance(base, VObj):
                target = self.getattr(base, f.attr, e.lineno)
        else:
            target = self.eval(f, env)
        fn, skip = None, 0
        if isinstance(target, VBound) and isinstance(target.func, VFunc):
            fn, skip = target.func, 1
        elif isinstance(target, VFunc):
            fn = target
        if fn is None:
            raise Unsupported('*args of symbolic shape in a call whose callee is not a repository function')
        params = [p.arg for p in fn.node.args.posonlyargs + fn.node.args.args]
        return len(params) - skip - have

    # ------------------------------------------------------------------ calls
    def call_value(self, fn, args, kwargs, line=None):
        if isinstance(fn, VFunc):
            return self.call_function(fn, args, kwargs, line)
        if isinstance(fn, VBound):
            if isinstance(fn.func, tuple):
                if fn.func[0] == 'comp':
                    return self.call_method(fn.selfv, fn.func[1], args, kwargs, line)
                return self.call_method(fn.selfv, fn.func[1], args, kwargs, line)
            return self.call_function(fn.func, [fn.selfv] + list(args), kwargs, line)
        if isinstance(fn, VBuiltin):
            return fn.fn(self, args, kwargs)
        if isinstance(fn, VClass):
            return self.instantiate(fn, args, kwargs, line)
        if isinstance(fn, VModule):
            m = self.world.models.get(fn.name)
            if m is not None:
                return m(self, args, kwargs)
            raise Unsupported('call of external %s (no model) at line %s' % (fn.name, line))
        raise Unsupported('call of %r at line %s' % (fn, line))

    def call_method(self, base, name, args, kwargs, line=None):
        if isinstance(base, VObj):
            v = self.getattr(base, name, line)
            return self.call_value(v, args, kwargs, line)
        if isinstance(base, VComp):
            if name in base.fields:
                return self.call_value(base.fields[name], args, kwargs, line)
            m = self.world.comp_models.get((base.kind, name))
            if m is None:
                raise Unsupported('no protocol model for %s.%s' % (base.kind, name))
            return m(self, base, args, kwargs, line)
        if isinstance(base, (VModule, VClass)):
            v = self.getattr(base, name, line)
            return self.call_value(v, args, kwargs, line)
        return B.call_method(self, base, name, args, kwargs, line)

    def qualname(self, fn):
        if fn.owner is not None:
            return fn.owner.name + '.' + fn.name
        return fn.name

    def call_function(self, fn, args, kwargs, line=None):
        qn = self.qualname(fn)
        c = self.world.contracts.get(qn)
        inline_ok = (getattr(fn, 'nested', False) or self.contract is None
                     or qn in self.contract.inline or fn.name in self.contract.inline
                     or (fn.module is not None and not self.ctx.limits.get('modular', True)))
        if c is not None and not (self.contract is not None and qn in self.contract.inline) \
                and not self.spec_inline(qn):
            from .apply import apply_contract
            return apply_contract(self, c, fn, args, kwargs, line)
        if not inline_ok and all(fully_concrete(a) for a in list(args) + list(kwargs.values())):
            inline_ok = True      # concrete evaluation of a module-level helper (table construction)
        if not inline_ok and self.contract is not None and not self.spec():
            raise Unsupported('call of %s at line %s: callee has no contract and is not declared inline' % (qn, line))
        return self.inline_call(fn, args, kwargs, line)

    def spec_inline(self, qn):
        return False

    def inline_call(self, fn, args, kwargs, line=None):
        self.call_depth += 1
        if self.call_depth > 40:
            self.call_depth -= 1
            self.raise_py('RecursionError', 'maximum recursion depth exceeded', line)
        try:
            env = Env(parent=fn.env, module=fn.module, func=fn)
            self.bind_params(fn, env, list(args), dict(kwargs), line)
            node = fn.node
            if isinstance(node, ast.Lambda):
                return self.eval(node.body, env)
            saved = self.fn_node
            if not getattr(fn, 'nested', False):
                self.fn_node_stack = getattr(self, 'fn_node_stack', [])
            try:
                self.exec_block(node.body, env)
            except ReturnSig as r:
                return r.value
            return None
        finally:
            self.call_depth -= 1

    def bind_params(self, fn, env, args, kwargs, line=None):
        a = fn.node.args
        params = [p.arg for p in a.posonlyargs + a.args]
        defaults = a.defaults
        ndef = len(defaults)
        star_kw = kwargs.pop('**', None)
        for i, p in enumerate(params):
            if i < len(args):
                env.set(p, args[i])
            elif p in kwargs:
                env.set(p, kwargs.pop(p))
            elif i >= len(params) - ndef:
                env.set(p, self.eval(defaults[i - (len(params) - ndef)], fn.env))
            else:
                self.raise_py('TypeError', 'missing argument %s of %s' % (p, fn.name), line)
        extra = args[len(params):]
        if a.vararg:
            env.set(a.vararg.arg, tuple(extra))
        elif extra:
            self.raise_py('TypeError', 'too many positional arguments for %s' % fn.name, line)
        for i, p in enumerate(a.kwonlyargs):
            if p.arg in kwargs:
                env.set(p.arg, kwargs.pop(p.arg))
            elif a.kw_defaults[i] is not None:
                env.set(p.arg, self.eval(a.kw_defaults[i], fn.env))
            else:
                self.raise_py('TypeError', 'missing keyword argument', line)
        if a.kwarg:
            if star_kw is not None:
                if kwargs:
                    raise Unsupported('mix of explicit keywords and symbolic ** mapping')
                env.set(a.kwarg.arg, star_kw)
            else:
                d = VDict()
                d.born = pv_alloc()
                for k, v in kwargs.items():
                    d.keys.append(k)
                    d.vals[k] = v
                env.set(a.kwarg.arg, d)
        elif kwargs:
            self.raise_py('TypeError', 'unexpected keyword argument %s' % list(kwargs)[0], line)


def fully_concrete(v, depth=0):
    if pv.is_concrete(v):
        return True
    if depth > 6:
        return False
    if isinstance(v, VList):
        return not v.symbolic and all(fully_concrete(x, depth + 1) for x in v.items)
    if isinstance(v, VDict):
        return not v.symbolic and all(fully_concrete(x, depth + 1) for x in v.vals.values())
    if isinstance(v, VSet):
        return not v.symbolic
    if isinstance(v, tuple):
        return all(fully_concrete(x, depth + 1) for x in v)
    return False


pv_alloc = pv.alloc
pv_alloc_reset = pv.alloc_reset
pv_alloc_now = pv.alloc_now
