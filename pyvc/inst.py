"""Quantifier instantiation over the index terms of the obligation (array-property style).

The hypotheses of an obligation contain universally quantified facts (loop invariants, callee
postconditions, mapped sequences).  z3's own instantiation often answers ``unknown``; here the
negated obligation is put in negation normal form, existentials are Skolemised, and every remaining
universal quantifier is replaced by the conjunction of its instances over the ground terms of the
right sort that occur as array indices / sequence positions (two rounds, so Skolem terms and terms
created by the first round are used too).  Replacing ``forall x. P(x)`` by finitely many instances
weakens a hypothesis, therefore

  * ``unsat`` of the instantiated formula proves the obligation (sound);
  * ``sat`` only yields a *candidate* counter-model: it must be confirmed by replaying it on the real
    code (DESIGN 2.6).
"""
import time
import z3

MAX_TERMS = 48
MAX_INST = 6000


def _subterms(t, seen, out, bound_depth=0):
    k = t.get_id()
    if k in seen:
        return
    seen.add(k)
    if z3.is_quantifier(t):
        return          # terms under a binder may contain bound variables: skip
    if z3.is_app(t):
        for c in t.children():
            _subterms(c, seen, out)
        out.append(t)


def _has_var(t, cache):
    k = t.get_id()
    if k in cache:
        return cache[k]
    if z3.is_var(t):
        r = True
    elif z3.is_quantifier(t):
        r = _has_var(t.body(), cache)
    else:
        r = any(_has_var(c, cache) for c in t.children())
    cache[k] = r
    return r


def index_terms(fs):
    """ground terms by sort that are used as array indices, sequence positions, or are constants"""
    seen, subs = set(), []
    for f in fs:
        _subterms(f, seen, subs)
    by_sort = {}

    def add(t):
        by_sort.setdefault(t.sort().sexpr(), {})[t.get_id()] = t
    for t in subs:
        dk = t.decl().kind()
        if dk in (z3.Z3_OP_SELECT, z3.Z3_OP_STORE):
            a = t.arg(0)
            if z3.is_app(a) and a.decl().name() == 'flds' and z3.is_string_value(t.arg(1)):
                continue        # attribute names of objects are not dictionary keys
            add(t.arg(1))
        elif dk == z3.Z3_OP_SEQ_NTH or dk == z3.Z3_OP_SEQ_AT:
            add(t.arg(1))
        elif dk == z3.Z3_OP_UNINTERPRETED and t.num_args() == 0 and t.sort().sexpr() != 'String':
            add(t)      # constants incl. Skolem constants (string constants count only when used as index)
        elif dk == z3.Z3_OP_SEQ_LENGTH:
            add(t)
    for s in list(by_sort):
        if s == 'Int':
            z = z3.IntVal(0)
            by_sort[s][z.get_id()] = z
    return {s: list(d.values())[:MAX_TERMS] for s, d in by_sort.items()}


def _instantiate(f, terms, budget):
    """replace universal quantifiers (positive positions, formula in NNF) by instances"""
    if z3.is_quantifier(f):
        if not f.is_forall():
            return f
        n = f.num_vars()
        sorts = [f.var_sort(i) for i in range(n)]
        cands = [terms.get(s.sexpr(), []) for s in sorts]
        if any(not c for c in cands):
            return z3.BoolVal(True)
        total = 1
        for c in cands:
            total *= len(c)
        if total > 400:
            # trim multi-variable quantifiers
            lim = max(2, int(400 ** (1.0 / n)))
            cands = [c[:lim] for c in cands]
        body = f.body()
        out = []
        import itertools
        for combo in itertools.product(*cands):
            if budget[0] <= 0:
                break
            budget[0] -= 1
            inst = z3.substitute_vars(body, *reversed(combo))
            out.append(_instantiate(inst, terms, budget))
        return z3.And(*out) if out else z3.BoolVal(True)
    if z3.is_app(f) and f.decl().kind() in (z3.Z3_OP_AND, z3.Z3_OP_OR):
        ch = [_instantiate(c, terms, budget) for c in f.children()]
        return z3.And(*ch) if f.decl().kind() == z3.Z3_OP_AND else z3.Or(*ch)
    return f


def inst_check(hyps, goal, timeout_ms=10000, rounds=2):
    """-> ('unsat' | 'sat' | 'unknown', model or None, seconds)"""
    t0 = time.time()
    g = z3.Goal()
    for h in hyps:
        g.add(h)
    g.add(z3.Not(goal))
    try:
        nnf = z3.Then(z3.Tactic('simplify'), z3.Tactic('nnf'))(g)
    except z3.Z3Exception:
        return 'unknown', None, time.time() - t0
    fs = [f for sub in nnf for f in sub]
    cur = fs
    qf = None
    for r in range(rounds):
        terms = index_terms(cur if r == 0 else cur + fs)
        budget = [MAX_INST]
        qf = [_instantiate(f, terms, budget) for f in fs]
        cur = qf
    # z3's sequence solver is not stable on identical input: a quick "unknown" is retried with other seeds
    for attempt in range(4):
        s = z3.Solver()
        s.set('timeout', timeout_ms)
        if attempt:
            s.set('random_seed', attempt * 7919)
            s.set('smt.random_seed', attempt * 104729)
        for f in qf:
            s.add(f)
        r = s.check()
        if r == z3.unsat:
            return 'unsat', None, time.time() - t0
        if r == z3.sat:
            return 'sat', s.model(), time.time() - t0
        if time.time() - t0 > timeout_ms / 1000.0:
            break
    return 'unknown', None, time.time() - t0
