"""Contract objects and shapes (how the symbolic pre-state of a function is built)."""
import ast
import z3
from . import pv
from .pv import PV, SInt, SBool, SStr, SAny, VList, VDict, VSet, VObj, VSeqIter, VComp, Unsupported


text_filter = z3.Function('text_filter', z3.StringSort(), z3.StringSort(), z3.StringSort())


class Sh:
    def __init__(self, kind, *a, **k):
        self.kind, self.a, self.k = kind, a, k

    def __repr__(self):
        return 'Sh(%s%s%s)' % (self.kind, ', %r' % (self.a,) if self.a else '', ', %r' % self.k if self.k else '')


Int, Str, Bool, Any, NoneT = Sh('int'), Sh('str'), Sh('bool'), Sh('any'), Sh('none')


def Obj(cls, **fields):
    return Sh('obj', cls, **fields)


def Tup(*shapes):
    return Sh('tup', *shapes)


def Lst(*shapes):
    return Sh('lst', *shapes)


def SeqOf(elem=None):
    """list of symbolic length; elem=Comp(kind) makes its elements protocol components"""
    return Sh('seq', elem)


def TupOf(elem=None):
    return Sh('tupof', elem)


def MapOf():
    return Sh('map')


def SetOf():
    return Sh('set')


def Const(v):
    return Sh('const', v)


def Comp(kind, **fields):
    return Sh('comp', kind, **fields)


def Rec(**keys):
    return Sh('rec', **keys)


def Opt(shape):
    return Sh('opt', shape)


def OneOf(*shapes):
    return Sh('oneof', *shapes)


def Callback(returns=None, raises='Exception'):
    """user-supplied callable: returns an unconstrained value or raises an arbitrary exception"""
    return Sh('callback', returns, raises)


def LexerObj(**fields):
    """the PLY lexer object as the token rules see it: lineno, a state switched by begin(), a state stack"""
    return Sh('lexer', **fields)


def TextFilter():
    """the textFilter callable of the code generators: an uninterpreted function of (kind, text)"""
    return Sh('textfilter')


def StrObj(cls, **fields):
    """instance of a str subclass (MibStatus)"""
    return Sh('strobj', cls, **fields)


def build(sh, it, hint='v'):
    """shape -> fresh symbolic value (may fork for Opt / OneOf)."""
    ctx = it.ctx
    k = sh.kind
    if k == 'int':
        return SInt(ctx.fresh(z3.IntSort(), hint))
    if k == 'str':
        return SStr(ctx.fresh(z3.StringSort(), hint))
    if k == 'bool':
        return SBool(ctx.fresh(z3.BoolSort(), hint))
    if k == 'any':
        return it.fresh_any(hint)
    if k == 'none':
        return None
    if k == 'const':
        return _const(sh.a[0])
    if k == 'obj':
        o = VObj(sh.a[0])
        for f, s in sh.k.items():
            o.fields[f] = build(s, it, hint + '.' + f)
        return o
    if k == 'strobj':
        o = VObj(sh.a[0], strval=SStr(ctx.fresh(z3.StringSort(), hint + '.$str')))
        for f, s in sh.k.items():
            o.fields[f] = build(s, it, hint + '.' + f)
        return o
    if k == 'tup':
        return tuple(build(s, it, '%s.%d' % (hint, i)) for i, s in enumerate(sh.a))
    if k == 'lst':
        return VList([build(s, it, '%s.%d' % (hint, i)) for i, s in enumerate(sh.a)])
    if k == 'seq':
        if sh.a and sh.a[0] is not None and sh.a[0].kind == 'str':
            return VList(seq=ctx.fresh(z3.SeqSort(z3.StringSort()), hint), elem='str')
        l = VList(seq=ctx.fresh(pv.PVSeq, hint))
        if sh.a and sh.a[0] is not None and sh.a[0].kind == 'comp':
            kind = sh.a[0].a[0]
            l.wrap = lambda t, kind=kind: VComp(kind, t)
        return l
    if k == 'tupof':
        if sh.a and sh.a[0] is not None and sh.a[0].kind == 'str':
            return VSeqIter(ctx.fresh(z3.SeqSort(z3.StringSort()), hint), elem='str')
        return VSeqIter(ctx.fresh(pv.PVSeq, hint))
    if k == 'map':
        return VDict(arr=ctx.fresh(pv.PVArr, hint))
    if k == 'set':
        return VSet(arr=ctx.fresh(pv.PVSetS, hint))
    if k == 'comp':
        c = VComp(sh.a[0], PV.PRef(z3.StringVal(sh.a[0]), ctx.fresh(z3.IntSort(), hint)))
        for f, s in sh.k.items():
            c.fields[f] = build(s, it, hint + '.' + f)
        return c
    if k == 'rec':
        d = VDict()
        for key, s in sh.k.items():
            d.keys.append(key)
            d.vals[key] = build(s, it, hint + '.' + key)
        return d
    if k == 'callback':
        ret_sh, exc_cls = sh.a

        def call(it_, args, kwargs, ret_sh=ret_sh, exc_cls=exc_cls, hint=hint):
            from .interp import PyRaise
            it_.ctx.note('user callback %s: returns anything or raises any exception (assumed protocol)' % hint)
            if it_.ctx.choose(2, 'callback:' + hint) == 1:
                e = VObj(exc_cls)
                e.fields['args'] = (it_.fresh_str('cbmsg'),)
                e.fields['msg'] = e.fields['args'][0]
                raise PyRaise(e, None)
            it_.ctx.ghost['cb_calls'] = it_.ctx.ghost.get('cb_calls', 0) + 1
            it_.ctx.ghost['cb_last_args'] = tuple(args)
            return build(ret_sh, it_, hint + '.ret') if ret_sh is not None else it_.fresh_any(hint + '.ret')
        return pv.VBuiltin('callback:' + hint, call)
    if k == 'lexer':
        o = VObj('Lexer')
        o.fields['lineno'] = SInt(ctx.fresh(z3.IntSort(), hint + '.lineno'))
        o.fields['state'] = SStr(ctx.fresh(z3.StringSort(), hint + '.state'))
        o.fields['begins'] = 0
        from .interp import UNBOUND

        def hook(it_, obj, attr):
            if attr == 'begin':
                def begin(i, a, kw):
                    i.mutating(obj, 'state')
                    obj.fields['state'] = a[0]
                    obj.fields['begins'] = obj.fields['begins'] + 1
                    return None
                return pv.VBuiltin('lexer.begin', begin)
            return UNBOUND
        o.attr_hook = hook
        return o
    if k == 'textfilter':
        def tf(it_, args, kwargs):
            return SStr(text_filter(pv.as_term_str(args[0]), pv.as_term_str(args[1])))
        return pv.VBuiltin('textFilter', tf)
    if k == 'opt':
        if ctx.choose(2, 'opt:' + hint) == 0:
            return None
        return build(sh.a[0], it, hint)
    if k == 'oneof':
        i = ctx.choose(len(sh.a), 'oneof:' + hint)
        return build(sh.a[i], it, hint)
    raise Unsupported('shape %r' % (sh,))


def _const(v):
    if isinstance(v, list):
        return VList([_const(x) for x in v])
    if isinstance(v, dict):
        d = VDict()
        for k, x in v.items():
            d.keys.append(k)
            d.vals[k] = _const(x)
        return d
    if isinstance(v, tuple):
        return tuple(_const(x) for x in v)
    if isinstance(v, (set, frozenset)):
        return VSet(sorted(v))
    return v


class Contract:
    def __init__(self, id, file, func, serves, params, requires=(), ensures=None, raises=None, assigns=(),
                 loops=None, inline=(), let=None, returns=None, ghost=None, notes=(), cases=None,
                 trusted=False, pure=False, setup=None, replay=None, exc_fields=None, defs=None,
                 at_return=None, known=None, axioms=None, heavy=False, tier='quick', prune_ms=None):
        self.id, self.file, self.func, self.serves = id, file, func, list(serves)
        self.params = dict(params)
        self.requires = list(requires)
        self.ensures = dict(ensures or {})
        self.raises = dict(raises or {})
        self.assigns = list(assigns)
        self.loops = dict(loops or {})
        self.inline = set(inline)
        self.let = dict(let or {})
        self.returns = returns if returns is not None else Any
        self.ghost = dict(ghost or {})
        self.notes = list(notes)
        self.cases = cases          # list of (name, overrides dict) for per-alternative verification
        self.trusted = trusted      # assumed contract (no body verified) - listed in the trusted base
        self.pure = pure
        self.setup = setup          # python callable(interp, env) run after the pre-state is built
        self.replay = replay        # name of a replay builder
        self.exc_fields = exc_fields or {}
        self.defs = dict(defs or {})   # user-defined spec predicates: name -> 'lambda ...'
        self.at_return = dict(at_return or {})   # return ordinal -> {name: clause over locals}
        self.known = dict(known or {})  # obligation name -> predicate (history) excluded by a known finding
        self.axioms = list(axioms or [])   # defining equations of spec functions: assumed here and at call sites
        self.heavy = heavy      # many obligations: discharged with obligation-level parallelism
        self.tier = tier        # 'thorough': too slow for the quick tier, run in the thorough tier only
        self.prune_ms = prune_ms    # time limit of one path-pruning query (pruning only: a timeout keeps the path)

    def variant(self, name, **over):
        c = Contract(self.id + '[' + name + ']', self.file, self.func, self.serves, self.params,
                     self.requires, self.ensures, self.raises, self.assigns, self.loops, self.inline, self.let,
                     self.returns, self.ghost, self.notes, None, self.trusted, self.pure, self.setup, self.replay,
                     self.exc_fields, self.defs, self.at_return, self.known, self.axioms, self.heavy, self.tier, self.prune_ms)
        for k, v in over.items():
            if k == 'params':
                c.params = dict(self.params)
                c.params.update(v)
            elif k == 'requires':
                c.requires = self.requires + list(v)
            elif k == 'ensures':
                c.ensures = dict(self.ensures)
                c.ensures.update(v)
            else:
                setattr(c, k, v)
        return c


_parse_cache = {}


def parse_expr(s):
    if s not in _parse_cache:
        _parse_cache[s] = ast.parse(s.strip(), mode='eval').body
    return _parse_cache[s]


def old_exprs(node):
    """all ``old(e)`` argument nodes in a clause"""
    out = []
    for n in ast.walk(node):
        if isinstance(n, ast.Call) and isinstance(n.func, ast.Name) and n.func.id == 'old':
            out.append(n.args[0])
    return out


def prev_exprs(node):
    """all ``prev(e)`` argument nodes (value of e at the start of the current loop iteration)"""
    out = []
    for n in ast.walk(node):
        if isinstance(n, ast.Call) and isinstance(n.func, ast.Name) and n.func.id == 'prev':
            out.append(n.args[0])
    return out


def pre_exprs(node):
    out = []
    for n in ast.walk(node):
        if isinstance(n, ast.Call) and isinstance(n.func, ast.Name) and n.func.id == 'pre':
            out.append(n.args[0])
    return out
