"""C17 lockstep lemma: a weak simulation between the real LR tables of two dialects S (fewer relaxations) and L
(more).  If the set Reach of state pairs closes without mismatch then, by induction on the run, on every token
sequence S accepts L performs the same shifts and the matching reductions - for texts of any length.

The tables are dumped from the parser objects the real parserFactory builds (PLY as installed), under
/venv/bin/python with PYTHONPATH=$VERIF_REPO, on every run.

Steps of L that S does not make are *silent* reductions B -> gamma whose right-hand side S holds on its stack as
is (the relaxations that replace a production: fuzzy_lowercase_identifier, EnterprisePart); a reduction
A -> alpha of S is matched by a reduction A -> beta of L where beta *segment-matches* alpha (each symbol of beta
is the same symbol of alpha or a non-terminal of L with a production equal to the next segment of alpha).
The exposed stack states are over-approximated by all pairs (a, b) already in Reach from which alpha leads to s
in S's automaton and beta leads to l in L's - which can only add checks.
"""
import json
import os
import subprocess
import time

DUMP = r'''
import json, sys
from pysmi.parser.smi import parserFactory
from pysmi.lexer.smi import lexerFactory
opts = json.loads(sys.argv[1])
P = parserFactory(**opts)
p = P()
lr = p.parser
lex = p.lexer
out = {
  'productions': [[pr.name, list(pr.prod), (getattr(getattr(pr.callable, '__func__', None), '__qualname__', None) if pr.callable else None)] for pr in lr.productions],
  'action': {str(s): row for s, row in lr.action.items()},
  'goto': {str(s): row for s, row in lr.goto.items()},
  'defaulted': {str(s): a for s, a in lr.defaulted_states.items()},
  'reserved': lex.reserved, 'forbidden': list(lex.forbidden_words), 'tokens': sorted(lex.tokens),
  'overrides': sorted(k for k in P.__dict__ if not k.startswith('__')),
  'lexer_overrides': sorted(k for k in type(lex).__dict__ if not k.startswith('__')),
  'lexer_rules': {n: getattr(getattr(type(lex), n), '__qualname__', repr(getattr(type(lex), n)))
                  for n in dir(type(lex)) if n.startswith('t_') or n in ('states', 'literals')},
  'parser_other': {n: getattr(getattr(P, n), '__qualname__', None) for n in ('parse', 'p_error', 'reset', '__init__')},
}
print(json.dumps(out))
'''

_cache = {}


def dump_tables(opts):
    key = json.dumps(opts, sort_keys=True)
    if key in _cache:
        return _cache[key]
    repo = os.environ.get('VERIF_REPO', '/repo')
    env = dict(os.environ)
    env['PYTHONPATH'] = repo
    p = subprocess.run(['/venv/bin/python', '-c', DUMP, key], capture_output=True, text=True, env=env, timeout=300)
    if p.returncode != 0:
        raise RuntimeError('cannot build parser for %s: %s' % (key, p.stderr.strip().splitlines()[-1:] ))
    t = json.loads(p.stdout)
    t['action'] = {int(s): row for s, row in t['action'].items()}
    t['goto'] = {int(s): row for s, row in t['goto'].items()}
    t['defaulted'] = {int(s): a for s, a in t['defaulted'].items()}
    _cache[key] = t
    return t


class Auto:
    def __init__(self, t):
        self.t = t
        self.prods = t['productions']
        self.action = t['action']
        self.goto = t['goto']
        self.defaulted = t['defaulted']
        self.byname = {}
        for i, pr in enumerate(self.prods):
            self.byname.setdefault(pr[0], []).append(pr[1])
        self._pred = {}

    def pred(self, syms, target):
        """states a with walk(a, syms) == target"""
        key = tuple(syms)
        if key not in self._pred:
            d = {}
            for a in self.action:
                t = self.walk(a, syms)
                if t is not None:
                    d.setdefault(t, []).append(a)
            self._pred[key] = d
        return self._pred[key].get(target, [])

    def step(self, s, sym):
        """state after pushing grammar symbol sym from state s (None if impossible)"""
        g = self.goto.get(s, {})
        if sym in g:
            return g[sym]
        a = self.action.get(s, {}).get(sym)
        if a is not None and a > 0:
            return a
        return None

    def walk(self, s, syms):
        for x in syms:
            s = self.step(s, x)
            if s is None:
                return None
        return s

    def act(self, s, tok):
        """action of state s under look-ahead tok: ('s', n) / ('r', prod index) / ('a',) / None"""
        if s in self.defaulted:
            return ('r', -self.defaulted[s])
        a = self.action.get(s, {}).get(tok)
        if a is None:
            return None
        if a > 0:
            return ('s', a)
        if a < 0:
            return ('r', -a)
        return ('a',)

    def lookaheads(self, s):
        return list(self.action.get(s, {}))


def segment_match(L, beta, alpha):
    """beta (production of L) against alpha (production of S): list of segments or None"""
    def rec(i, j):
        if i == len(beta):
            return [] if j == len(alpha) else None
        b = beta[i]
        if j < len(alpha) and alpha[j] == b:
            r = rec(i + 1, j + 1)
            if r is not None:
                return [(b, [alpha[j]])] + r
        for rhs in L.byname.get(b, []):
            if rhs and alpha[j:j + len(rhs)] == rhs:
                r = rec(i + 1, j + len(rhs))
                if r is not None:
                    return [(b, rhs)] + r
        return None
    return rec(0, 0)


def lockstep(S_opts, L_opts, max_pairs=20000):
    """-> dict(pairs, mismatches, silent, segmented, matched, seconds)

    Reach maps a state pair to the look-aheads under which it can occur (None = any): pairs entered by a shift or
    by a matched reduction are unrestricted (over-approximation: the look-ahead of a reduction is not tracked);
    a pair entered by a silent reduction of L is restricted to the look-ahead that triggered it unless the
    reduction is L's default in that state.  The closure is iterated until a whole pass adds nothing, since a
    reduction examined early has to be re-examined against exposed pairs found later."""
    t0 = time.time()
    S, L = Auto(dump_tables(S_opts)), Auto(dump_tables(L_opts))
    reach = {(0, 0): None}
    silent, segmented, matched = set(), set(), set()
    passes = 0
    while True:
        passes += 1
        before = {k: (None if v is None else frozenset(v)) for k, v in reach.items()}
        mismatches = []
        for (s, l) in list(reach):
            restr = reach[(s, l)]
            for tok in S.lookaheads(s):
                if restr is not None and tok not in restr:
                    continue
                _examine(S, L, reach, s, l, tok, mismatches, silent, segmented, matched)
            if len(reach) > max_pairs:
                break
        if len(reach) > max_pairs:
            mismatches.append({'why': 'pair budget exhausted'})
            break
        after = {k: (None if v is None else frozenset(v)) for k, v in reach.items()}
        if after == before:
            break
    return {'pairs': len(reach), 'passes': passes, 'mismatches': mismatches[:20], 'n_mismatches': len(mismatches),
            'silent': sorted(silent), 'segmented': sorted(segmented), 'matched': matched,
            'seconds': round(time.time() - t0, 2), 'S': S, 'L': L}


def _add(reach, pair, restr=None):
    if pair not in reach:
        reach[pair] = None if restr is None else set(restr)
    elif reach[pair] is not None:
        if restr is None:
            reach[pair] = None
        else:
            reach[pair] |= set(restr)


def _examine(S, L, reach, s, l, tok, mismatches, silent, segmented, matched):
    aS = S.act(s, tok)
    aL = L.act(l, tok)
    if aL is None:
        mismatches.append({'pair': (s, l), 'token': tok, 'S': aS, 'L': None})
        return
    if aS[0] == 'a':
        if aL[0] == 'a':
            return
    elif aS[0] == 's':
        if aL[0] == 's':
            _add(reach, (aS[1], aL[1]))
            return
    else:
        A, alpha = S.prods[aS[1]][:2]
        if aL[0] == 'r':
            B, beta = L.prods[aL[1]][:2]
            seg = segment_match(L, beta, alpha) if B == A else None
            if seg is not None:
                if beta != alpha:
                    segmented.add((A, tuple(beta), tuple(alpha)))
                matched.add((aS[1], aL[1]))
                found = False
                for (a, b) in [(a, b) for a in S.pred(alpha, s) for b in L.pred(beta, l) if (a, b) in reach]:
                    if True:
                        ga, gb = S.step(a, A), L.step(b, A)
                        if ga is None or gb is None:
                            mismatches.append({'pair': (s, l), 'token': tok, 'S': aS, 'L': aL,
                                               'why': 'no goto on %s' % A})
                        else:
                            _add(reach, (ga, gb))
                        found = True
                if not found:
                    mismatches.append({'pair': (s, l), 'token': tok, 'S': aS, 'L': aL, 'why': 'no exposed pair'})
                return
    # L makes a step S does not make: a silent reduction B -> gamma whose right-hand side S holds as is
    if aL[0] == 'r':
        B, gamma = L.prods[aL[1]][:2]
        ok = False
        for (a, b) in [(a, b) for a in S.pred(gamma, s) for b in L.pred(gamma, l) if (a, b) in reach]:
            if True:
                g = L.step(b, B)
                if g is not None:
                    _add(reach, (s, g), None if l in L.defaulted else [tok])
                    ok = True
        if ok:
            silent.add((B, tuple(gamma)))
            return
    mismatches.append({'pair': (s, l), 'token': tok, 'S': aS, 'L': aL})


# ---------------------------------------------------------------------------------------------- C17 obligations
OPTIONS = ['supportSmiV1Keywords', 'supportIndex', 'commaAtTheEndOfImport', 'commaAtTheEndOfSequence',
           'mixOfCommasAndSpaces', 'uppercaseIdentifier', 'lowcaseIdentifier', 'curlyBracesAroundEnterpriseInTrap',
           'noCells']
SHORT = ['v1kw', 'index', 'impcomma', 'seqcomma', 'commaspace', 'upper', 'lower', 'curly', 'nocells']


def shipped_dialects():
    """the three presets of pysmi/parser/dialect.py, read from the tree under verification"""
    repo = os.environ.get('VERIF_REPO', '/repo')
    env = dict(os.environ)
    env['PYTHONPATH'] = repo
    code = 'import json; from pysmi.parser import dialect as d; print(json.dumps([d.smiV2, d.smiV1, d.smiV1Relaxed]))'
    p = subprocess.run(['/venv/bin/python', '-c', code], capture_output=True, text=True, env=env, timeout=60)
    if p.returncode != 0:
        raise RuntimeError('cannot read dialect presets: ' + p.stderr[-300:])
    return json.loads(p.stdout)


def name_of(opts):
    on = [o for o in OPTIONS if opts.get(o)]
    extra = sorted(o for o in opts if opts[o] and o not in OPTIONS)
    return '+'.join([SHORT[OPTIONS.index(o)] for o in on] + extra) or 'smiV2'


def expected_expr(qual, rhs):
    """expected-tree expression (contracts/parser_actions.py) of the alternative rhs of the rule function qual;
    these expressions are what the parser.* contracts prove of each function"""
    from contracts import parser_actions as PA
    from .extract import SourceFile, docstring_of
    src = SourceFile.get(PA.FILE)
    node = src.find(qual)
    if node is None:
        return None
    rule, alts = PA.split_production(docstring_of(node))
    cls = qual.split('.')[0]
    if cls == 'SmiV2Parser':
        exp = ['None'] * len(alts) if rule in PA.NOT_REPRESENTED else PA.E.get(rule)
    else:
        exp = PA.RELAXED.get(qual, (None, None))[1]
    if exp is None or len(exp) != len(alts):
        return None
    want = [x for x in rhs] or ['empty']
    for a, e in zip(alts, exp):
        if [x[1:-1] if len(x) == 3 and x[0] == x[2] == "'" else x for x in a] == want:
            if e == PA.PASS:
                return a[0]
            return e
    return None


def value_lemma(r):
    """every reduction of S matched in the closure builds the same value in L, given equal values below"""
    import re
    S, L = r['S'], r['L']
    bad, checked, identical = [], 0, 0
    for (i, j) in sorted(r['matched']):
        A, alpha, qS = S.prods[i]
        B, beta, qL = L.prods[j]
        if qS == qL and alpha == beta:
            identical += 1
            continue
        checked += 1
        eS, eL = expected_expr(qS, alpha), expected_expr(qL, beta)
        if eS is None or eL is None:
            bad.append('%s -> %s: no expected tree for %s' % (A, ' '.join(alpha), qS if eS is None else qL))
            continue
        for b, seg in segment_match(L, beta, alpha):
            if [b] == seg:
                continue
            qB = [q for (n, rhs, q) in L.prods if n == b and rhs == seg]
            eB = expected_expr(qB[0], seg) if qB else None
            if eB is None:
                bad.append('%s: no expected tree for the silent reduction %s -> %s' % (A, b, ' '.join(seg)))
                continue
            eL = re.sub(r'\b%s\b' % re.escape(b), eB, eL)
        if ''.join(eS.split()) != ''.join(eL.split()):
            bad.append('%s -> %s: %s builds %s but %s builds %s' % (A, ' '.join(alpha), qS, eS, qL, eL))
    for (B, gamma) in r['silent']:
        qB = [q for (n, rhs, q) in L.prods if n == B and rhs == list(gamma)]
        if not qB or expected_expr(qB[0], list(gamma)) is None:
            bad.append('no expected tree for the silent reduction %s -> %s' % (B, ' '.join(gamma)))
    return bad, checked, identical


def lexer_lemma(tS, tL):
    """same rule functions; a word that S neither forbids nor L newly reserves is classified alike"""
    bad = []
    if tS['lexer_rules'] != tL['lexer_rules']:
        diff = sorted(k for k in set(tS['lexer_rules']) | set(tL['lexer_rules'])
                      if tS['lexer_rules'].get(k) != tL['lexer_rules'].get(k))
        bad.append('lexer rules differ: %s' % diff)
    other = set(tL['lexer_overrides']) - {'reserved', 'forbidden_words', 'tokens'}
    if other:
        bad.append('lexer members overridden besides the word tables: %s' % sorted(other))
    if tS['parser_other'] != tL['parser_other']:
        bad.append('parse / p_error / reset / __init__ differ')

    def classify(t, w):
        if w in t['forbidden']:
            return 'error'
        return t['reserved'].get(w, 'UPPERCASE_IDENTIFIER')
    newly = set(tL['reserved']) - set(tS['reserved'])
    words = set(tS['reserved']) | set(tL['reserved']) | set(tS['forbidden']) | set(tL['forbidden']) | {'Zz'}
    for w in sorted(words):
        cS, cL = classify(tS, w), classify(tL, w)
        if cS == 'error' or w in newly:
            continue            # not in a text S accepts / the exemption of the property
        if cS != cL:
            bad.append('word %r is %s under the smaller dialect and %s under the larger' % (w, cS, cL))
    if not set(tS['tokens']) <= set(tL['tokens']):
        bad.append('tokens dropped: %s' % sorted(set(tS['tokens']) - set(tL['tokens'])))
    return bad, sorted(newly)


_unbuildable = set()


def buildable(opts):
    key = json.dumps(opts, sort_keys=True)
    if key in _unbuildable:
        return False
    try:
        dump_tables(opts)
        return True
    except RuntimeError:
        _unbuildable.add(key)
        return False


def pairs_for(tier, seed=0):
    v2, v1, rel = shipped_dialects()
    out = [(v2, v1), (v1, rel), (v2, rel)]
    singles = [{o: True} for o in OPTIONS]
    out += [(v2, s) for s in singles]
    out += [(s, rel) for s in singles if all(rel.get(k) for k in s)]
    if tier == 'thorough':
        # every subset against each of its one-option extensions: all superset pairs follow by transitivity
        n = len(OPTIONS)
        for mask in range(1 << n):
            S = {OPTIONS[i]: True for i in range(n) if mask >> i & 1}
            for i in range(n):
                if not mask >> i & 1:
                    Lo = dict(S)
                    Lo[OPTIONS[i]] = True
                    out.append((S, Lo))
    else:
        import random
        rnd = random.Random(seed)
        for _ in range(6):
            S = {o: True for o in OPTIONS if rnd.random() < 0.4}
            Lo = dict(S)
            Lo.update({o: True for o in OPTIONS if rnd.random() < 0.5})
            out.append((S, Lo, 'seeded'))
    seen, uniq = set(), []
    for pr in out:
        S, Lo = pr[0], pr[1]
        k = (name_of(S), name_of(Lo))
        if k[0] != k[1] and k not in seen:
            seen.add(k)
            uniq.append(pr)
    return uniq


def _one_pair(pair):
    out = _one_pair0(pair[:2])
    if len(pair) > 2:
        for o in out:
            o['seed_dependent'] = True      # pair drawn with VERIF_SEED: not recorded in EXPECTED.json
    return out


def _one_pair0(pair):
    S_opts, L_opts = pair
    t0 = time.time()
    nm = '%s<=%s' % (name_of(S_opts), name_of(L_opts))
    out = []

    def ob(name, ok, info, backend='table-closure'):
        out.append({'name': 'lockstep[%s].%s' % (nm, name), 'verdict': 'discharged' if ok else 'refuted',
                    'backend': backend, 't': round(time.time() - t0, 3), 'info': info, 'kind': 'lemma', 'line': None})
    bS, bL = buildable(S_opts), buildable(L_opts)
    if not (bS and bL):
        # the property quantifies over the subsets a parser can be built from
        out.append({'name': 'lockstep[%s].skipped' % nm, 'verdict': 'discharged', 'backend': 'static',
                    't': 0, 'info': {'clause': 'no parser can be built from %s' %
                                     (name_of(S_opts) if not bS else name_of(L_opts))},
                    'kind': 'lemma', 'line': None, 'skipped': True})
        return out
    r = lockstep(S_opts, L_opts)
    ob('tables_simulate', r['n_mismatches'] == 0,
       {'clause': 'every reachable pair of LR states agrees on shift / matching reduce / accept for every '
                  'look-ahead of the smaller dialect',
        'pairs': r['pairs'], 'passes': r['passes'], 'states': [len(r['S'].action), len(r['L'].action)],
        'silent_reductions': [list(x) for x in r['silent']], 'segmented': len(r['segmented']),
        'mismatches': r['mismatches'][:5], 'n_mismatches': r['n_mismatches']})
    bad, checked, identical = value_lemma(r)
    ob('reductions_build_the_same_tree', not bad,
       {'clause': 'a matched reduction is the same function on the same right-hand side, or its expected tree '
                  '(proved of the function by its parser.* contract) is the same expression after substituting '
                  'the silent reductions', 'identical': identical, 'by_expected_tree': checked, 'failures': bad[:5]},
       'static')
    badl, newly = lexer_lemma(r['S'].t, r['L'].t)
    ob('lexers_agree_outside_newly_reserved_words', not badl,
       {'clause': 'same rule functions and the same classification of every word the smaller dialect does not '
                  'forbid and the larger does not newly reserve', 'newly_reserved': newly, 'failures': badl[:5]},
       'static')
    return out


def c17_obligations(tier, seed=0):
    import multiprocessing as mp
    pairs = pairs_for(tier, seed)
    # build every parser once, before forking (16 builder subprocesses at a time)
    from multiprocessing.pool import ThreadPool
    todo = {json.dumps(o, sort_keys=True): o for pr in pairs for o in pr[:2]}
    with ThreadPool(16) as tp:
        tp.map(buildable, list(todo.values()))
    if len(pairs) > 24:
        with mp.get_context('fork').Pool(16) as pool:
            res = pool.map(_one_pair, pairs, chunksize=4)
    else:
        res = [_one_pair(p) for p in pairs]
    out = [o for r in res for o in r]
    n_real = sum(1 for o in out if o['name'].endswith('tables_simulate'))
    if n_real < 3:
        out.append({'name': 'lockstep.non_vacuous', 'verdict': 'refuted', 'backend': 'static', 't': 0,
                    'info': {'clause': 'fewer than three dialect pairs could be built'}, 'kind': 'lemma', 'line': None})
    return out
