"""Table lemmas (C16): the SMIv1 -> SMIv2 data of the real classes, read from the classes themselves on every run
(subprocess under /venv/bin/python with PYTHONPATH=$VERIF_REPO), checked exhaustively against
  * the shape the genImports contracts quantify over (contracts/imports.py WF_TABLE),
  * the SMIv2 modules shipped with the installed pysnmp (ground truth, trusted) and
  * the type / keyword correspondences the property statement names.
Finite data, decided by enumeration (backend 'table'); the rewriting itself is a bounded stand-in (bounded/c16_tables.py)."""
import json
import os
import subprocess
import time

HERE = os.path.dirname(os.path.abspath(__file__))
VENV_PY = '/venv/bin/python'
SMIV2_HOMES = ('SNMPv2-MIB', 'SNMPv2-SMI', 'SNMPv2-TC', 'SNMPv2-CONF')


def _dump():
    env = dict(os.environ)
    env['PYTHONPATH'] = os.environ.get('VERIF_REPO', '/repo')
    p = subprocess.run([VENV_PY, os.path.join(HERE, 'bounded', 'c16_tables.py'), 'dump'], capture_output=True, text=True,
                       env=env, timeout=300, cwd='/')
    if p.returncode != 0:
        raise RuntimeError('table dump failed: %s' % p.stderr[-800:])
    return json.loads(p.stdout)


def _ob(name, bad, clause, t0, extra=None):
    info = {'clause': clause, 'failures': bad[:8], 'n_failures': len(bad)}
    info.update(extra or {})
    d = {'name': 'tables.' + name, 'verdict': 'discharged' if not bad else 'refuted', 'backend': 'table',
         't': round(time.time() - t0, 4), 'info': info, 'kind': 'lemma', 'line': None}
    if bad:
        d['witness'] = bad[0]
    return d


def c16_lemmas():
    t0 = time.time()
    d = _dump()
    T = d['symtable.convertImportv2']
    E = d['pysnmp_exports']
    macro = d['symtable.symsTable']
    out = []
    out.append(_ob('both_generators_share_one_conversion_table',
                   [] if T == d['intermediate.convertImportv2'] else ['tables differ'],
                   'SymtableCodeGen and IntermediateCodeGen rewrite with the same conversion table', t0))
    # shape the genImports contracts are proved for
    bad = []
    for m, t in T.items():
        if not isinstance(t, dict):
            bad.append([m, 'not a dict'])
            continue
        for s, l in t.items():
            if not isinstance(l, list) or not l:
                bad.append([m, s, 'no target list'])
                continue
            for p in l:
                if not (isinstance(p, list) and len(p) == 2 and all(isinstance(x, str) for x in p)):
                    bad.append([m, s, p, 'not a (module, symbol) pair'])
                elif p[0] == m or p[0] == 'class':
                    bad.append([m, s, p, 'points back to its own module'])
    out.append(_ob('conversion_table_has_the_shape_the_contracts_quantify_over', bad,
                   'module -> symbol -> non-empty list of (module, symbol) string pairs, no entry pointing to its own module '
                   '(WF_TABLE of contracts/imports.py)', t0, {'modules': sorted(T), 'entries': sum(len(t) for t in T.values())}))
    # the six SMIv1 base modules of the statement are the keys
    want = ['RFC-1212', 'RFC-1215', 'RFC1065-SMI', 'RFC1155-SMI', 'RFC1158-MIB', 'RFC1213-MIB']
    out.append(_ob('the_six_smiv1_base_modules_are_rewritten', [m for m in want if m not in T],
                   'convertImportv2 has an entry for each of %s' % ', '.join(want), t0))
    # every target is defined by the SMIv2 module it names (for the modules pysnmp ships)
    bad, unchecked = [], set()
    for m, t in T.items():
        for s, l in t.items():
            for m2, s2 in l:
                if m2 not in E or not E[m2]:
                    unchecked.add(m2)
                    continue
                for name in macro.get(s2, [s2]):
                    if name not in E[m2] and name.replace('-', '_') not in E[m2]:
                        bad.append([m, s, [m2, s2], '%s is not exported by pysnmp %s' % (name, m2)])
    out.append(_ob('every_target_is_defined_by_the_smiv2_module_it_names', bad,
                   'for every table entry (m, s) -> (m2, s2) with m2 shipped by the installed pysnmp: m2 exports s2 (macro '
                   'names through symsTable)', t0, {'target_modules_not_shipped_hence_not_checked': sorted(unchecked)}))
    # every symbol of a shipped SMIv1 MIB that has a home in a shipped SMIv2 module is rewritten to it
    bad = []
    for m in ('RFC1213-MIB', 'RFC1158-MIB'):
        for s in E.get(m, []):
            for M2 in SMIV2_HOMES:
                # (pysnmp exports under Python identifiers: mib_2 is the MIB symbol mib-2)
                mib = s if s in T.get(m, {}) else s.replace('_', '-')
                if s in E.get(M2, []) and [M2, mib] not in T.get(m, {}).get(mib, []):
                    bad.append([m, s, 'defined by %s but not rewritten to it' % M2])
    out.append(_ob('smiv1_mib_symbols_with_an_smiv2_home_are_rewritten_to_it', bad,
                   'every symbol pysnmp\'s RFC1213-MIB / RFC1158-MIB export that SNMPv2-MIB (or SNMPv2-SMI/-TC/-CONF) exports '
                   'too is mapped there', t0, {'rfc1213_symbols': len(E.get('RFC1213-MIB', []))}))
    # the system and snmp groups of RFC 1213 (mib-2.1.1-7, mib-2.11.1-30) live on in SNMPv2-MIB: every object SNMPv2-MIB
    # defines at one of these OIDs is an RFC1213-MIB / RFC1158-MIB object with an SMIv2 home
    bad = []
    homes = sorted(n for n, o in d['snmpv2_mib_oids'].items()
                   if len(o) == 8 and o[:6] == [1, 3, 6, 1, 2, 1] and ((o[6] == 1 and o[7] <= 7) or (o[6] == 11 and o[7] <= 30)))
    for m in ('RFC1213-MIB', 'RFC1158-MIB'):
        for n in homes:
            if ['SNMPv2-MIB', n] not in T.get(m, {}).get(n, []):
                bad.append([m, n, 'defined by SNMPv2-MIB at an RFC 1213 OID but not rewritten to it'])
    out.append(_ob('rfc1213_system_and_snmp_group_objects_are_rewritten_to_snmpv2_mib', bad,
                   'every object the installed SNMPv2-MIB defines under mib-2.1.(1-7) or mib-2.11.(1-30) is mapped from '
                   'RFC1213-MIB and RFC1158-MIB to SNMPv2-MIB', t0, {'objects': len(homes)}))
    # the correspondences the statement names
    bad = []
    for m in ('RFC1155-SMI', 'RFC1065-SMI'):
        for s, s2 in (('Counter', 'Counter32'), ('Gauge', 'Gauge32'), ('NetworkAddress', 'IpAddress'), ('IpAddress', 'IpAddress'),
                      ('TimeTicks', 'TimeTicks'), ('Opaque', 'Opaque'), ('enterprises', 'enterprises'), ('mgmt', 'mgmt'),
                      ('internet', 'internet'), ('private', 'private'), ('experimental', 'experimental'),
                      ('directory', 'directory'), ('OBJECT-TYPE', 'OBJECT-TYPE')):
            if T.get(m, {}).get(s) != [['SNMPv2-SMI', s2]]:
                bad.append([m, s, T.get(m, {}).get(s)])
    if T.get('RFC-1212', {}).get('OBJECT-TYPE') != [['SNMPv2-SMI', 'OBJECT-TYPE']]:
        bad.append(['RFC-1212', 'OBJECT-TYPE', T.get('RFC-1212', {}).get('OBJECT-TYPE')])
    tt = T.get('RFC-1215', {}).get('TRAP-TYPE')
    if not tt or tt[0][0] != 'SNMPv2-SMI':
        bad.append(['RFC-1215', 'TRAP-TYPE', tt])
    out.append(_ob('smi_base_symbols_map_to_snmpv2_smi', bad,
                   'Counter -> Counter32, Gauge -> Gauge32, NetworkAddress -> IpAddress, the OID roots and OBJECT-TYPE of '
                   'RFC1155-SMI / RFC1065-SMI / RFC-1212 map to SNMPv2-SMI; TRAP-TYPE of RFC-1215 to SNMPv2-SMI', t0))
    bad = []
    for tab in ('symtable.typeClasses', 'pysnmp.SMI_TYPES'):
        for k, v in (('COUNTER32', 'Counter32'), ('GAUGE32', 'Gauge32'), ('NETWORKADDRESS', 'IpAddress'),
                     ('INTEGER', 'Integer32'), ('IPADDRESS', 'IpAddress'), ('TIMETICKS', 'TimeTicks'),
                     ('OPAQUE', 'Opaque'), ('OCTET STRING', 'OctetString'), ('OBJECT IDENTIFIER', 'ObjectIdentifier')):
            if d[tab].get(k) != v:
                bad.append([tab, k, d[tab].get(k)])
    for k, v in (('Counter', 'COUNTER32'), ('Gauge', 'GAUGE32'), ('NetworkAddress', 'NETWORKADDRESS')):
        if d['lexer.reserved.v1'].get(k) != v:
            bad.append(['lexer.reserved (supportSmiV1Keywords)', k, d['lexer.reserved.v1'].get(k)])
    out.append(_ob('smiv1_type_keywords_become_their_smiv2_classes', bad,
                   'SMIv1 keywords Counter / Gauge / NetworkAddress lex to COUNTER32 / GAUGE32 / NETWORKADDRESS and the type '
                   'tables of the symbol table and of the pysnmp generator map these (and INTEGER) to Counter32 / Gauge32 / '
                   'IpAddress / Integer32', t0))
    return out


def _bounded(prefix, script, module, tier, seed, nshards):
    from .bounded.runner import obligations as bounded_obligations
    return bounded_obligations(
        prefix, script, tier, seed,
        "if __name__ == '__main__':\n    import sys\n    sys.path.insert(0, %r)\n"
        "    from pyvc.bounded import %s as H\n"
        "    sys.exit(H.replay(REPLAY['witness'], '%%(clause)s'))\n" % (os.path.dirname(HERE), module), nshards=nshards)


def run(pid, tier, seed, world):
    out = []
    if pid == 'C20':
        out += _bounded('bounded.mibcopy', 'c20_mibcopy.py', 'c20_mibcopy', tier, seed, 8)
    if pid == 'C14':
        out += _bounded('bounded.ZipReader', 'c14_zipreader.py', 'c14_zipreader', tier, seed, 4 if tier == 'thorough' else 1)
        out += _bounded('bounded.readers', 'c14_filereader.py', 'c14_filereader', tier, seed, 8 if tier == 'thorough' else 2)
    if pid == 'C16':
        out += c16_lemmas()
        from .bounded.runner import obligations as bounded_obligations
        out += bounded_obligations(
            'bounded.genImports', 'c16_tables.py', tier, seed,
            "if __name__ == '__main__':\n    import sys\n    sys.path.insert(0, %r)\n"
            "    from pyvc.bounded import c16_tables as H\n"
            "    sys.exit(H.replay(REPLAY['witness'], '%%(clause)s'))\n" % os.path.dirname(HERE), nshards=1)
    return out
