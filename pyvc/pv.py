"""Value model of pyvc.

Every run-time value of the analysed Python code is one of

* a concrete Python value: None, bool, int, str, bytes, tuple (of values);
* a typed symbolic leaf: SInt, SBool, SStr (z3 Int / Bool / String term);
* SAny: a term of the universal z3 datatype ``PyVal`` (used wherever the code
  dispatches on the dynamic type, and for everything stored in a symbolic
  container);
* an engine-side mutable object: VList, VDict, VSet, VObj (identity = the Python
  object of the engine; a fresh engine run re-creates them, see explore.py);
* callables / namespaces: VFunc, VBound, VClass, VModule, VBuiltin, VComp.

``lift(v)`` maps any value to a PyVal term (by value - mutable objects are
snapshotted), ``lower(term)`` wraps a PyVal term as SAny.
"""
import z3

# --------------------------------------------------------------------------
# the universal sort

_PV = z3.Datatype('PyVal')
_fw = z3.DatatypeSort('PyVal')
_PV.declare('PNone')
_PV.declare('PAbsent')                      # "no value": missing dict entry / attribute
_PV.declare('PBool', ('b', z3.BoolSort()))
_PV.declare('PInt', ('i', z3.IntSort()))
_PV.declare('PStr', ('s', z3.StringSort()))
_PV.declare('PBytes', ('by', z3.StringSort()))
_PV.declare('PSeq', ('islist', z3.BoolSort()), ('sitems', z3.SeqSort(_fw)))     # tuple (islist=False) / list
_PV.declare('PDict', ('dkeys', z3.SeqSort(_fw)), ('dvals', z3.ArraySort(z3.StringSort(), _fw)))
_PV.declare('PSet', ('selems', z3.ArraySort(z3.StringSort(), z3.BoolSort())))
_PV.declare('PObj', ('cls', z3.StringSort()), ('sval', _fw), ('flds', z3.ArraySort(z3.StringSort(), _fw)))
_PV.declare('PRef', ('rkind', z3.StringSort()), ('rid', z3.IntSort()))   # opaque identity
PV = _PV.create()
# tuples and lists share one constructor (one accessor for the items: no case split when the kind is unknown)
PV.PTuple = lambda items: PV.PSeq(z3.BoolVal(False), items)
PV.PList = lambda items: PV.PSeq(z3.BoolVal(True), items)
PV.is_PTuple = lambda x: z3.And(PV.is_PSeq(x), z3.Not(PV.islist(x)))
PV.is_PList = lambda x: z3.And(PV.is_PSeq(x), PV.islist(x))
PV.titems = PV.sitems
PV.litems = PV.sitems
PVSeq = z3.SeqSort(PV)
PVArr = z3.ArraySort(z3.StringSort(), PV)      # dict: index = kenc(key)
PVSetS = z3.ArraySort(z3.StringSort(), z3.BoolSort())
FldArr = z3.ArraySort(z3.StringSort(), PV)

PNone, PAbsent = PV.PNone, PV.PAbsent
EMPTY_ARR = z3.K(z3.StringSort(), PAbsent)
EMPTY_SET = z3.K(z3.StringSort(), z3.BoolVal(False))
EMPTY_FLDS = z3.K(z3.StringSort(), PAbsent)
EMPTY_SEQ = z3.Empty(PVSeq)


class Unsupported(Exception):
    """Construct outside the supported subset -> the check is UNDECIDED, never a verdict."""


_nth_cache = {}


def _has_nth_split(t):
    k = t.get_id()
    r = _nth_cache.get(k)
    if r is None:
        if z3.is_app(t) and t.decl().name() in ('seq.nth_i', 'seq.nth_u'):
            r = True
        elif z3.is_quantifier(t):
            r = _has_nth_split(t.body())
        else:
            r = any(_has_nth_split(c) for c in t.children())
        if len(_nth_cache) > 300000:
            _nth_cache.clear()
        _nth_cache[k] = (r, t)       # the term is kept alive: AST ids are recycled after collection
        return r
    return r[0]


_cn_cache = {}


def _contains_nth(t):
    k = t.get_id()
    r = _cn_cache.get(k)
    if r is None:
        if z3.is_app(t) and t.decl().kind() == z3.Z3_OP_SEQ_NTH:
            r = True
        elif z3.is_quantifier(t):
            r = _contains_nth(t.body())
        else:
            r = any(_contains_nth(c) for c in t.children())
        if len(_cn_cache) > 300000:
            _cn_cache.clear()
        _cn_cache[k] = (r, t)
        return r
    return r[0]


_ss_cache = {}


def ssimp(t):
    """Simplification that never splits seq.nth into nth_i / nth_u.  z3's rewriter does that case split and
    hoists the resulting if-then-else, which hides the structure  xs ++ [y]  from the quantifier decomposition
    and from E-matching.  Terms without seq.nth go to z3.simplify; others are rebuilt bottom-up with the few
    local rules the engine needs (accessor-of-constructor, recognisers, nth of a literal sequence, constant
    conditions)."""
    if not _contains_nth(t):
        return z3.simplify(t)
    k = t.get_id()
    r = _ss_cache.get(k)
    if r is not None:
        return r[0]
    r = _ssimp(t)
    if len(_ss_cache) > 200000:
        _ss_cache.clear()
    _ss_cache[k] = (r, t)
    return r


def _seq_units(sq):
    """list of element terms if sq is a literal sequence (Unit / Concat of Units / Empty), else None"""
    if not z3.is_app(sq):
        return None
    kd = sq.decl().kind()
    if kd == z3.Z3_OP_SEQ_EMPTY:
        return []
    if kd == z3.Z3_OP_SEQ_UNIT:
        return [sq.arg(0)]
    if kd == z3.Z3_OP_SEQ_CONCAT:
        out = []
        for c in sq.children():
            u = _seq_units(c)
            if u is None:
                return None
            out.extend(u)
        return out
    return None


def _ssimp(t):
    if z3.is_quantifier(t) or not z3.is_app(t) or t.num_args() == 0:
        return t
    ch = [ssimp(c) for c in t.children()]
    d = t.decl()
    kd = d.kind()
    name = d.name()
    # nth of a literal sequence at a literal position
    if kd == z3.Z3_OP_SEQ_NTH:
        units = _seq_units(ch[0])
        if units is not None and z3.is_int_value(ch[1]):
            i = ch[1].as_long()
            if 0 <= i < len(units):
                return units[i]
        return z3.SeqRef.__getitem__(ch[0], ch[1]) if False else ch[0][ch[1]]
    if kd == z3.Z3_OP_SEQ_LENGTH:
        units = _seq_units(ch[0])
        if units is not None:
            return z3.IntVal(len(units))
    # datatype accessors / recognisers on constructor applications
    if kd == z3.Z3_OP_DT_ACCESSOR and z3.is_app(ch[0]) and ch[0].decl().kind() == z3.Z3_OP_DT_CONSTRUCTOR:
        c = ch[0]
        cons = c.decl()
        dt = c.sort()
        for ci in range(dt.num_constructors()):
            if dt.constructor(ci).name() == cons.name():
                for ai in range(cons.arity()):
                    if dt.accessor(ci, ai).name() == name:
                        return c.arg(ai)
    if kd in (z3.Z3_OP_DT_RECOGNISER, z3.Z3_OP_DT_IS) and z3.is_app(ch[0]) and \
            ch[0].decl().kind() == z3.Z3_OP_DT_CONSTRUCTOR:
        dt = ch[0].sort()
        for ci in range(dt.num_constructors()):
            if dt.recognizer(ci).eq(d) or (kd == z3.Z3_OP_DT_IS and d.params() and False):
                return z3.BoolVal(dt.constructor(ci).name() == ch[0].decl().name())
        # is(C, x): compare by printing the recogniser's constructor
        try:
            target = d.params()[0].name()
            return z3.BoolVal(target == ch[0].decl().name())
        except Exception:       # noqa
            pass
    if kd == z3.Z3_OP_ITE:
        if z3.is_true(ch[0]):
            return ch[1]
        if z3.is_false(ch[0]):
            return ch[2]
        if ch[1].eq(ch[2]):
            return ch[1]
    if kd == z3.Z3_OP_AND:
        if any(z3.is_false(c) for c in ch):
            return z3.BoolVal(False)
        ch2 = [c for c in ch if not z3.is_true(c)]
        if not ch2:
            return z3.BoolVal(True)
        return ch2[0] if len(ch2) == 1 else z3.And(*ch2)
    if kd == z3.Z3_OP_OR:
        if any(z3.is_true(c) for c in ch):
            return z3.BoolVal(True)
        ch2 = [c for c in ch if not z3.is_false(c)]
        if not ch2:
            return z3.BoolVal(False)
        return ch2[0] if len(ch2) == 1 else z3.Or(*ch2)
    if kd == z3.Z3_OP_NOT:
        if z3.is_true(ch[0]):
            return z3.BoolVal(False)
        if z3.is_false(ch[0]):
            return z3.BoolVal(True)
    if kd == z3.Z3_OP_IMPLIES:
        if z3.is_false(ch[0]) or z3.is_true(ch[1]):
            return z3.BoolVal(True)
        if z3.is_true(ch[0]):
            return ch[1]
    if kd == z3.Z3_OP_EQ:
        if ch[0].eq(ch[1]):
            return z3.BoolVal(True)
        # distinct constructors / equal constructors
        a, b_ = ch
        if z3.is_app(a) and z3.is_app(b_) and a.decl().kind() == z3.Z3_OP_DT_CONSTRUCTOR and \
                b_.decl().kind() == z3.Z3_OP_DT_CONSTRUCTOR and a.decl().name() != b_.decl().name():
            return z3.BoolVal(False)
    try:
        return d(*ch)
    except Exception:       # noqa
        return t


_ALLOC = [0]


def alloc():
    _ALLOC[0] += 1
    return _ALLOC[0]


def alloc_reset():
    _ALLOC[0] = 0


def alloc_now():
    return _ALLOC[0]


# --------------------------------------------------------------------------
# symbolic leaves

class Sym:

    def __init__(self, t):
        self.t = t

    def __repr__(self):
        return '%s(%s)' % (self.__class__.__name__, self.t)

    # guard against accidental use as a Python bool / key
    def __bool__(self):
        raise Unsupported('symbolic value used as concrete bool: %r' % (self,))

    __hash__ = object.__hash__

    def __eq__(self, other):  # identity only; semantic equality is veq()
        return self is other


class SInt(Sym):
    pass


class SBool(Sym):
    pass


class SStr(Sym):
    pass


class SAny(Sym):
    pass


# --------------------------------------------------------------------------
# engine-side mutable objects

class VList:
    """Python list. Concrete mode: ``items`` (list of values); symbolic mode: ``seq`` (Seq PyVal)."""

    def __init__(self, items=None, seq=None, elem='any'):
        self.items = items if seq is None else None
        if self.items is None and seq is None:
            self.items = []
        self.seq = seq
        self.elem = elem if seq is not None else 'any'     # 'any': Seq PyVal; 'str': Seq String
        self.frozen = False
        self.born = alloc()

    @property
    def symbolic(self):
        return self.seq is not None

    def to_seq(self):
        """Seq PyVal image"""
        if self.seq is not None:
            return pv_seq(self.seq, self.elem)
        return seq_of([lift(x) for x in self.items])

    def make_symbolic(self):
        if self.seq is None:
            self.seq = self.to_seq()
            self.elem = 'any'
            self.items = None

    def length(self):
        if self.seq is None:
            return len(self.items)
        return SInt(z3.Length(self.seq))

    def __repr__(self):
        return 'VList(%r)' % (self.items if self.seq is None else self.seq,)


class VDict:
    """Python dict. Concrete mode: insertion-ordered, concrete hashable keys.
    Symbolic mode: ``arr`` (Array PyVal PyVal, PAbsent = missing); iteration order unspecified."""

    def __init__(self, arr=None):
        self.keys = [] if arr is None else None
        self.vals = {} if arr is None else None
        self.arr = arr
        self.frozen = False
        self.ordered_cls = 'dict'
        self.born = alloc()

    @property
    def symbolic(self):
        return self.arr is not None

    def to_arr(self):
        if self.arr is not None:
            return self.arr
        a = EMPTY_ARR
        for k in self.keys:
            a = z3.Store(a, kenc(k), lift(self.vals[k]))
        return a

    def make_symbolic(self):
        if self.arr is None:
            self.arr = self.to_arr()
            self.keys = self.vals = None

    def __repr__(self):
        if self.arr is None:
            return 'VDict{%s}' % ', '.join('%r: %r' % (k, self.vals[k]) for k in self.keys)
        return 'VDict<%s>' % self.arr


class VSet:
    def __init__(self, elems=None, arr=None):
        self.elems = (list(elems) if elems is not None else []) if arr is None else None
        self.arr = arr
        self.frozen = False
        self.born = alloc()

    @property
    def symbolic(self):
        return self.arr is not None

    def to_arr(self):
        if self.arr is not None:
            return self.arr
        a = EMPTY_SET
        for k in self.elems:
            a = z3.Store(a, kenc(k), z3.BoolVal(True))
        return a

    def make_symbolic(self):
        if self.arr is None:
            self.arr = self.to_arr()
            self.elems = None

    def __repr__(self):
        return 'VSet(%r)' % (self.elems if self.arr is None else self.arr,)


class VObj:
    """Instance of a class of the analysed code (or of an exception / model class)."""

    def __init__(self, cls, fields=None, strval=None):
        self.cls = cls            # class name (str)
        self.fields = dict(fields or {})
        self.strval = strval      # for str subclasses (MibStatus)
        self.frozen = False
        self.vclass = None        # VClass when known (attribute fallback)
        self.born = alloc()

    def __repr__(self):
        return 'VObj<%s %s%r>' % (self.cls, '' if self.strval is None else repr(self.strval) + ' ', self.fields)


class VKeys:
    """Immutable snapshot of the key set of a symbolic dict (``tuple(d)``, ``list(d)``, ``d.copy()`` iteration)."""

    def __init__(self, arr):
        self.arr = arr


class VSeqIter:
    """Immutable iterable over a Seq term (generator expression / tuple of symbolic length)."""

    def __init__(self, seq, kind='tuple', elem='any'):
        self.seq = seq
        self.kind = kind
        self.elem = elem

    def to_seq(self):
        return pv_seq(self.seq, self.elem)


_str_to_pv = None


def pv_seq(seq, elem):
    """typed sequence term -> Seq PyVal"""
    if elem == 'any':
        return seq
    x = z3.String('x!m')
    return z3.SeqMap(z3.Lambda([x], PV.PStr(x)), seq)


def elem_value(owner, term):
    """element term of a (possibly typed) sequence -> value"""
    w = getattr(owner, 'wrap', None)
    if w is not None:
        return w(term)
    if getattr(owner, 'elem', 'any') == 'str':
        t = ssimp(term)
        return t.as_string() if z3.is_string_value(t) else SStr(t)
    return lower(term)


def elem_term(owner, v):
    """value -> element term for a (possibly typed) sequence; None if v cannot be an element"""
    if getattr(owner, 'elem', 'any') == 'str':
        if isinstance(v, str):
            return z3.StringVal(v)
        if isinstance(v, SStr):
            return v.t
        return None
    return lift(v)


class VFunc:
    def __init__(self, node, env, name, owner=None, module=None):
        self.node, self.env, self.name, self.owner, self.module = node, env, name, owner, module

    def __repr__(self):
        return 'VFunc<%s>' % self.name


class VBound:
    def __init__(self, func, selfv):
        self.func, self.selfv = func, selfv


class VClass:
    def __init__(self, name, node=None, bases=(), module=None, attrs=None):
        self.name, self.node, self.bases, self.module = name, node, list(bases), module
        self.attrs = attrs if attrs is not None else {}

    def __repr__(self):
        return 'VClass<%s>' % self.name


class VModule:
    def __init__(self, name, attrs=None):
        self.name = name
        self.attrs = attrs or {}

    def __repr__(self):
        return 'VModule<%s>' % self.name


class VBuiltin:
    def __init__(self, name, fn):
        self.name, self.fn = name, fn

    def __repr__(self):
        return 'VBuiltin<%s>' % self.name


class VComp:
    """A component obeying an assumed protocol contract (reader, parser, searcher, ...)."""

    def __init__(self, kind, ref):
        self.kind, self.ref = kind, ref     # ref: PyVal term (PRef)
        self.fields = {}

    def __repr__(self):
        return 'VComp<%s %s>' % (self.kind, self.ref)


# --------------------------------------------------------------------------
# helpers

_key_repr = z3.Function('key_repr', PV, z3.StringSort())
dict_keys = z3.Function('dict_keys', PVArr, PVSeq)     # key order of a symbolically indexed dict (unspecified)
set_members = z3.Function('set_members', PVSetS, PVSeq)  # the elements of a symbolic set in iteration order (unspecified)


def members_facts(ctx, arr, is_set):
    """the key / element sequence of a symbolically indexed dict / set: some order (unspecified) of exactly the
    members; keys are strings (assumption of the symbolic-container model).  Returns the Seq term."""
    ks = set_members(arr) if is_set else dict_keys(arr)
    done = ctx.ghost.setdefault('__members_facts__', {})
    if ks.get_id() in done:
        return ks
    done[ks.get_id()] = ks
    i = z3.Const('q.mi.9', z3.IntSort())
    j = z3.Const('q.mj.9', z3.IntSort())
    k = z3.Const('q.mk.9', z3.StringSort())
    mem = (lambda key: arr[key]) if is_set else (lambda key: arr[key] != PAbsent)
    ctx.assume(z3.ForAll([i], z3.Implies(z3.And(i >= 0, i < z3.Length(ks)),
                                         z3.And(PV.is_PStr(ks[i]), mem(PV.s(ks[i]))))))
    ctx.assume(z3.ForAll([k], z3.Implies(mem(k), z3.Exists([j], z3.And(j >= 0, j < z3.Length(ks), ks[j] == PV.PStr(k))))))
    return ks
NONSTR = '\x00'     # prefix of the index of a non-string key (never a prefix of a MIB / symbol name)


def _itos(t):
    return z3.If(t >= 0, z3.IntToStr(t), z3.Concat(z3.StringVal('-'), z3.IntToStr(-t)))


def kenc_t(t):
    """Index of a dict / set key given as PyVal term.  A string key is its own index; int keys get a
    NUL-prefixed numeral; other key types share the uninterpreted key_repr encoding (assumption A-keys:
    keys of symbolically indexed dicts are str or int)."""
    t = ssimp(t)
    if z3.is_app(t) and t.sort() == PV:
        d = t.decl().name()
        if d == 'PStr':
            return t.arg(0)
        if d == 'PInt':
            return z3.Concat(z3.StringVal(NONSTR + '#'), _itos(t.arg(0)))
    return z3.If(PV.is_PStr(t), PV.s(t),
                 z3.If(PV.is_PInt(t), z3.Concat(z3.StringVal(NONSTR + '#'), _itos(PV.i(t))),
                       z3.Concat(z3.StringVal(NONSTR + '?'), _key_repr(t))))


def kenc(v):
    if isinstance(v, str):
        return z3.StringVal(v)
    if isinstance(v, bool):
        return z3.StringVal(NONSTR + '#' + str(int(v)))
    if isinstance(v, int):
        return z3.StringVal(NONSTR + '#' + str(v))
    if isinstance(v, SStr):
        return v.t
    if isinstance(v, SInt):
        return z3.Concat(z3.StringVal(NONSTR + '#'), _itos(v.t))
    return kenc_t(lift(v))


def kdec(ks):
    """key value of an index string (inverse of kenc on string keys)"""
    return PV.PStr(ks)


def seq_of(terms):
    if not terms:
        return EMPTY_SEQ
    if len(terms) == 1:
        return z3.Unit(terms[0])
    return z3.Concat(*[z3.Unit(t) for t in terms])


def is_concrete(v):
    if v is None or isinstance(v, (bool, int, str, bytes)):
        return True
    if isinstance(v, tuple):
        return all(is_concrete(x) for x in v)
    return False


def is_hashable_concrete(v):
    return is_concrete(v)


def lift(v):
    """value -> PyVal term (by value)."""
    if v is None:
        return PNone
    if isinstance(v, bool):
        return PV.PBool(z3.BoolVal(v))
    if isinstance(v, int):
        return PV.PInt(z3.IntVal(v))
    if isinstance(v, str):
        return PV.PStr(z3.StringVal(v))
    if isinstance(v, bytes):
        return PV.PBytes(z3.StringVal(v.decode('latin-1')))
    if isinstance(v, SAny):
        return v.t
    if isinstance(v, SInt):
        return PV.PInt(v.t)
    if isinstance(v, SBool):
        return PV.PBool(v.t)
    if isinstance(v, SStr):
        return PV.PStr(v.t)
    if isinstance(v, tuple):
        return PV.PTuple(seq_of([lift(x) for x in v]))
    if isinstance(v, VList):
        v.frozen = True
        return PV.PList(v.to_seq())
    if isinstance(v, VSeqIter):
        return PV.PTuple(v.to_seq()) if v.kind == 'tuple' else PV.PList(v.to_seq())
    if isinstance(v, VDict):
        v.frozen = True
        if v.arr is None:
            return PV.PDict(seq_of([lift(k) for k in v.keys]), v.to_arr())
        return PV.PDict(dict_keys(v.arr), v.arr)
    if isinstance(v, VSet):
        v.frozen = True
        return PV.PSet(v.to_arr())
    if isinstance(v, VObj):
        v.frozen = True
        f = EMPTY_FLDS
        for k in sorted(v.fields):
            f = z3.Store(f, z3.StringVal(k), lift(v.fields[k]))
        return PV.PObj(z3.StringVal(v.cls), lift(v.strval) if v.strval is not None else PNone, f)
    if isinstance(v, VComp):
        return v.ref
    if isinstance(v, (VFunc, VBound, VClass, VBuiltin, VModule)):
        return PV.PRef(z3.StringVal('callable:' + getattr(v, 'name', 'bound')), z3.IntVal(0))
    if isinstance(v, VKeys) and getattr(v, 'ctx', None) is not None:
        return PV.PList(members_facts(v.ctx, v.arr, False))
    raise Unsupported('cannot lift %r' % (v,))


def lower(t):
    """PyVal term -> value (typed leaf when the constructor is syntactically known)."""
    t = ssimp(t)
    if z3.is_app(t) and t.sort() == PV:
        d = t.decl().name()
        if d == 'PNone':
            return None
        if d == 'PInt':
            a = t.arg(0)
            return a.as_long() if z3.is_int_value(a) else SInt(a)
        if d == 'PStr':
            a = t.arg(0)
            return a.as_string() if z3.is_string_value(a) else SStr(a)
        if d == 'PBool':
            a = t.arg(0)
            if z3.is_true(a):
                return True
            if z3.is_false(a):
                return False
            return SBool(a)
    return SAny(t)


def as_term_int(v):
    if isinstance(v, bool):
        return z3.IntVal(int(v))
    if isinstance(v, int):
        return z3.IntVal(v)
    if isinstance(v, SInt):
        return v.t
    if isinstance(v, SBool):
        return z3.If(v.t, z3.IntVal(1), z3.IntVal(0))
    if isinstance(v, SAny):
        return PV.i(v.t)
    raise Unsupported('not an int: %r' % (v,))


def as_term_str(v):
    if isinstance(v, str):
        return z3.StringVal(v)
    if isinstance(v, SStr):
        return v.t
    if isinstance(v, SAny):
        return PV.s(v.t)
    raise Unsupported('not a str: %r' % (v,))


def as_term_bool(v):
    if isinstance(v, bool):
        return z3.BoolVal(v)
    if isinstance(v, SBool):
        return v.t
    raise Unsupported('not a bool term: %r' % (v,))


def truthy_term(t):
    """Python truthiness of a PyVal term, as a z3 Bool."""
    return z3.If(PV.is_PNone(t), False,
           z3.If(PV.is_PAbsent(t), False,
           z3.If(PV.is_PBool(t), PV.b(t),
           z3.If(PV.is_PInt(t), PV.i(t) != 0,
           z3.If(PV.is_PStr(t), z3.Length(PV.s(t)) > 0,
           z3.If(PV.is_PBytes(t), z3.Length(PV.by(t)) > 0,
           z3.If(PV.is_PTuple(t), z3.Length(PV.titems(t)) > 0,
           z3.If(PV.is_PList(t), z3.Length(PV.litems(t)) > 0,
           z3.If(PV.is_PDict(t), z3.Length(PV.dkeys(t)) > 0,
           z3.If(PV.is_PSet(t), PV.selems(t) != EMPTY_SET,
           z3.If(z3.And(PV.is_PObj(t), z3.Not(PV.is_PNone(PV.sval(t)))),
                 z3.Length(PV.s(PV.sval(t))) > 0, True)))))))))))


def mkbool(t):
    """z3 Bool -> Python bool when decided syntactically, else SBool."""
    if isinstance(t, bool):
        return t
    t = ssimp(t)
    if z3.is_true(t):
        return True
    if z3.is_false(t):
        return False
    return SBool(t)


def truthy(v):
    """value -> Python bool or SBool."""
    if v is None or isinstance(v, (bool, int, str, bytes, tuple)):
        return bool(v)
    if isinstance(v, SBool):
        return v
    if isinstance(v, SInt):
        return mkbool(v.t != 0)
    if isinstance(v, SStr):
        return mkbool(z3.Length(v.t) > 0)
    if isinstance(v, SAny):
        return mkbool(truthy_term(v.t))
    if isinstance(v, VList):
        return bool(v.items) if v.seq is None else mkbool(z3.Length(v.seq) > 0)
    if isinstance(v, VSeqIter):
        return mkbool(z3.Length(v.seq) > 0)
    if isinstance(v, VDict):
        return bool(v.keys) if v.arr is None else mkbool(v.arr != EMPTY_ARR)
    if isinstance(v, VKeys):
        return mkbool(v.arr != EMPTY_ARR)
    if isinstance(v, VSet):
        return bool(v.elems) if v.arr is None else mkbool(v.arr != EMPTY_SET)
    if isinstance(v, VObj):
        if v.strval is not None:
            return truthy(v.strval)
        return True
    if isinstance(v, (VFunc, VBound, VClass, VModule, VBuiltin, VComp)):
        return True
    raise Unsupported('truthiness of %r' % (v,))


def _kind(v):
    if v is None:
        return 'none'
    if isinstance(v, (bool, SBool)):
        return 'bool'
    if isinstance(v, (int, SInt)):
        return 'int'
    if isinstance(v, (str, SStr)):
        return 'str'
    if isinstance(v, bytes):
        return 'bytes'
    if isinstance(v, tuple):
        return 'tuple'
    if isinstance(v, VList):
        return 'list'
    if isinstance(v, VDict):
        return 'dict'
    if isinstance(v, VSet):
        return 'set'
    if isinstance(v, SAny):
        return 'any'
    return 'obj'


# comparison of an untyped value with a str also looks at the str value of a str-subclass instance (MibStatus); switched
# on per contract (note 'str_subclass_equality') because the extra disjunct costs every other proof dearly
STR_SUBCLASS_EQ = False


def veq(a, b):
    """Python ``a == b`` -> bool or SBool. bool/int cross comparison (True == 1) is not modelled
    for symbolic operands (assumption A-eq)."""
    if is_concrete(a) and is_concrete(b):
        return a == b
    ka, kb = _kind(a), _kind(b)
    if ka == 'obj' or kb == 'obj':
        if isinstance(a, VObj) and a.strval is not None:
            return veq(a.strval, b.strval if isinstance(b, VObj) and b.strval is not None else b)
        if isinstance(b, VObj) and b.strval is not None:
            return veq(a, b.strval)
        if ka == 'any' or kb == 'any':
            return mkbool(lift(a) == lift(b))
        return a is b
    if ka == 'int' and kb == 'int':
        return mkbool(as_term_int(a) == as_term_int(b))
    if ka == 'str' and kb == 'str':
        return mkbool(as_term_str(a) == as_term_str(b))
    if ka == 'bool' and kb == 'bool':
        return mkbool(as_term_bool(a) == as_term_bool(b))
    if ka == 'tuple' and kb == 'tuple':
        if len(a) != len(b):
            return False
        r = True
        terms = []
        for x, y in zip(a, b):
            e = veq(x, y)
            if e is False:
                return False
            if e is not True:
                terms.append(e.t)
        return mkbool(z3.And(*terms)) if terms else r
    if {ka, kb} == {'any', 'str'} and STR_SUBCLASS_EQ:
        # an untyped value compared with a str: an instance of a str subclass (MibStatus) compares by its str value
        t, sv = (lift(a), lift(b)) if ka == 'any' else (lift(b), lift(a))
        return mkbool(z3.Or(t == sv, z3.And(PV.is_PObj(t), PV.sval(t) == sv)))
    if ka != 'any' and kb != 'any' and ka != kb and not ({ka, kb} <= {'bool', 'int'}):
        if {ka, kb} <= {'list', 'tuple', 'dict', 'set', 'none', 'str', 'int', 'bool', 'bytes'}:
            return False
    return mkbool(lift(a) == lift(b))


def fresh_like(v, fresh):
    """A fresh unconstrained value of the same kind as v (havoc). ``fresh(sort, hint)`` makes constants."""
    if isinstance(v, (bool, SBool)):
        return SBool(fresh(z3.BoolSort(), 'b'))
    if isinstance(v, (int, SInt)):
        return SInt(fresh(z3.IntSort(), 'i'))
    if isinstance(v, (str, SStr)):
        return SStr(fresh(z3.StringSort(), 's'))
    if isinstance(v, VList):
        if v.symbolic and v.elem == 'str':
            return VList(seq=fresh(z3.SeqSort(z3.StringSort()), 'l'), elem='str')
        return VList(seq=fresh(PVSeq, 'l'))
    if isinstance(v, VDict):
        return VDict(arr=fresh(PVArr, 'd'))
    if isinstance(v, VSet):
        return VSet(arr=fresh(PVSetS, 'st'))
    return SAny(fresh(PV, 'a'))


def snapshot(v, memo=None):
    """Deep by-value copy of engine-side mutable structure (terms are immutable and shared)."""
    if memo is None:
        memo = {}
    if id(v) in memo:
        return memo[id(v)]
    if isinstance(v, tuple):
        return tuple(snapshot(x, memo) for x in v)
    if isinstance(v, VList):
        n = VList(seq=v.seq, elem=v.elem) if v.symbolic else VList([snapshot(x, memo) for x in v.items])
        if hasattr(v, 'wrap'):
            n.wrap = v.wrap
        memo[id(v)] = n
        return n
    if isinstance(v, VDict):
        if v.symbolic:
            n = VDict(arr=v.arr)
        else:
            n = VDict()
            n.keys = list(v.keys)
            n.vals = {k: snapshot(x, memo) for k, x in v.vals.items()}
        n.ordered_cls = v.ordered_cls
        memo[id(v)] = n
        return n
    if isinstance(v, VSet):
        n = VSet(arr=v.arr) if v.symbolic else VSet(list(v.elems))
        memo[id(v)] = n
        return n
    if isinstance(v, VObj):
        n = VObj(v.cls, strval=v.strval)
        n.vclass = v.vclass
        memo[id(v)] = n
        n.fields = {k: snapshot(x, memo) for k, x in v.fields.items()}
        return n
    return v
