"""Bounded stand-in for C20 (scripts/mibcopy.py): the real script is run (subprocess, /venv/bin/python, PYTHONPATH=
$VERIF_REPO) on every scenario of a small scope and the destination directory is compared with what the statement
demands.  NOT a proof.

Scope: one module name (COPY-MIB) in 2-3 source files with revisions drawn from {none, 2001, 2005, 2005 (tie), 2010},
file names unlike the module name, spread over one or two source directories; every order of the source arguments; the
destination empty or holding a copy of some revision; optionally a --mib-source repository that holds the module under
its canonical name; plus an unrelated second module.
Clause: afterwards DESTINATION/<MODULE> exists for every module seen and its text is that of a candidate (source file or
the destination's initial copy) with the latest revision - whatever the order the sources are visited in.
"""
import itertools
import json
import os
import shutil
import subprocess
import sys
import tempfile

REVS = {None: '', 2001: '200101010000Z', 2005: '200505050000Z', 2010: '201010100000Z'}


def mib(name, rev, tag):
    ident = ''
    if rev is not None:
        ident = ('%sId MODULE-IDENTITY LAST-UPDATED "%s" ORGANIZATION "o" CONTACT-INFO "c" DESCRIPTION "%s" '
                 'REVISION "%s" DESCRIPTION "r" ::= { iso 99 }\n' % (name.split('-')[0].lower(), REVS[rev], tag, REVS[rev]))
    return ('%s DEFINITIONS ::= BEGIN\nIMPORTS MODULE-IDENTITY FROM SNMPv2-SMI;\n%s-- %s\nEND\n' % (name, ident, tag))


def scenarios(tier):
    out = []
    revsets = [(2001, 2005), (2005, 2001), (2005, 2005), (None, 2001), (2001, 2005, 2010), (2010, 2001, 2005), (2005, None, 2005)]
    for revs in revsets:
        for dst in ('empty', 2001, 2010):
            for repo in (None, 2005):
                if tier != 'thorough' and len(revs) == 3 and (dst != 'empty' or repo):
                    continue
                for split in (False, True):
                    out.append({'revs': list(revs), 'dst': dst, 'repo': repo, 'split': split})
    return out


def run_one(sc, script, fail):
    root = tempfile.mkdtemp(prefix='c20mc')
    try:
        srcs = [os.path.join(root, 'srcA'), os.path.join(root, 'srcB')]
        dst = os.path.join(root, 'dst')
        repo = os.path.join(root, 'repo')
        for d in srcs + [dst, repo]:
            os.makedirs(d)
        cands = {}           # text -> revision
        files = []
        for i, r in enumerate(sc['revs']):
            d = srcs[i % 2] if sc['split'] else srcs[0]
            f = os.path.join(d, 'file%d.mib' % i)
            t = mib('COPY-MIB', r, 'source %d' % i)
            open(f, 'w').write(t)
            cands[t] = r or 0
            files.append(f)
        other = mib('OTHER-MIB', 2001, 'other')
        open(os.path.join(srcs[0], 'zz-other.txt'), 'w').write(other)
        if sc['dst'] != 'empty':
            t = mib('COPY-MIB', sc['dst'], 'destination copy')
            open(os.path.join(dst, 'COPY-MIB'), 'w').write(t)
            cands[t] = sc['dst']
        if sc['repo']:
            open(os.path.join(repo, 'COPY-MIB'), 'w').write(mib('COPY-MIB', sc['repo'], 'repository copy'))
        best = max(cands.values())
        ok_texts = {t for t, r in cands.items() if r == best}
        args_variants = list(itertools.permutations(srcs if sc['split'] else files))
        env = dict(os.environ, PYTHONPATH=os.environ.get('VERIF_REPO', '/repo'))
        n = 0
        for order in args_variants:
            # fresh destination for every order
            d2 = dst + '.run'
            shutil.rmtree(d2, ignore_errors=True)
            shutil.copytree(dst, d2)
            cmd = [sys.executable, script, '--quiet', '--ignore-errors']       # (the SMI base modules are not in the scenario)
            if sc['repo']:
                cmd.append('--mib-source=' + repo)
            cmd += list(order) + ([os.path.join(srcs[0], 'zz-other.txt')] if not sc['split'] else []) + [d2]
            p = subprocess.run(cmd, capture_output=True, text=True, env=env, timeout=120)
            n += 1
            shown = dict(sc, order=[os.path.relpath(o, root) for o in order])
            if p.returncode != 0:
                fail('the_script_exits_0', 'exit %s: %s' % (p.returncode, p.stderr[-200:]), shown)
                continue
            f = os.path.join(d2, 'COPY-MIB')
            if not os.path.isfile(f):
                fail('every_module_seen_is_in_the_destination_under_its_module_name', 'COPY-MIB missing; dir: %s' % os.listdir(d2), shown)
                continue
            got = open(f).read()
            if got not in ok_texts:
                tag = [l for l in got.splitlines() if l.startswith('-- ')]
                fail('the_destination_holds_the_copy_with_the_latest_revision',
                     'destination holds %s, latest revision is %s' % (tag, best), shown)
            if not os.path.isfile(os.path.join(d2, 'OTHER-MIB')):
                fail('every_module_seen_is_in_the_destination_under_its_module_name', 'OTHER-MIB missing', shown)
        return n
    finally:
        shutil.rmtree(root, ignore_errors=True)


def main():
    tier = sys.argv[1] if len(sys.argv) > 1 else 'quick'
    shard, nshards = (int(sys.argv[3]), int(sys.argv[4])) if len(sys.argv) > 4 else (0, 1)
    script = os.path.join(os.environ.get('VERIF_REPO', '/repo'), 'scripts', 'mibcopy.py')
    fails = {}
    n = nontrivial = 0
    sample = None
    for sc in scenarios(tier)[shard::nshards]:
        def fail(clause, what, shown):
            fails.setdefault(clause, {'scenario': shown, 'what': what})
        runs = run_one(sc, script, fail)
        n += runs
        if runs > 1:
            nontrivial += runs
            sample = sample or sc
    clauses = ['the_script_exits_0', 'every_module_seen_is_in_the_destination_under_its_module_name',
               'the_destination_holds_the_copy_with_the_latest_revision']
    print(json.dumps({'scenarios': n, 'nontrivial': nontrivial, 'sample': sample,
                      'scope': {'module': 'COPY-MIB', 'revisions': [str(k) for k in REVS], 'files': '2-3', 'orders': 'all',
                                'destination': ['empty', 2001, 2010], 'repository': [None, 2005]},
                      'clauses': clauses, 'fails': fails}))


def replay(witness, clause):
    sc = {k: v for k, v in witness['scenario'].items() if k != 'order'}
    seen = []
    run_one(sc, os.path.join(os.environ.get('VERIF_REPO', '/repo'), 'scripts', 'mibcopy.py'),
            lambda c, w, s: seen.append((c, w)))
    for c, w in seen:
        if c == clause:
            print('REPRODUCED %s: %s' % (c, w))
            return 10
    print('not reproduced')
    return 0


if __name__ == '__main__':
    main()
