"""Bounded stand-in for C18 (JsonCodeGen.genIndex): exhaustive small-scope enumeration on the REAL function.

Runs under /venv/bin/python with PYTHONPATH=$VERIF_REPO.  NOT a proof: the scope is stated in SCOPE below and in the
evidence; within it every scenario is executed natively and the clauses of the property are evaluated on the result.

Scenario: an ordered list of index builds; every build indexes a dict of 1..2 module results on top of the index text
the previous build returned.  A module result = (name, set of OIDs it defines, identity OID or None, enterprise OID or
None, tuple of compliance OIDs), OIDs drawn from UNIVERSE (siblings whose last arc shares decimal digits, nested and
overlapping subtrees).
"""
import itertools
import json
import sys

UNIVERSE = ['1.3', '1.3.4', '1.3.4.1', '1.3.48', '1.3.4.10', '1.30', '2.1']
SCOPE = {
    'quick': {'modules': 3, 'max_oids': 2, 'builds': 2, 'universe': UNIVERSE[:5]},
    'thorough': {'modules': 3, 'max_oids': 3, 'builds': 3, 'universe': UNIVERSE},
}


def comp_prefix(p, o):
    a, b = p.split('.'), o.split('.')
    return a == b[:len(a)]


class Status(str):
    pass


def mk_status(oids, identity, enterprise, compliance):
    from pysmi.compiler import statusCompiled
    return statusCompiled.setOptions(oids=set(oids), identity=identity, enterprise=enterprise, compliance=list(compliance))


def check_index(idx, history, clause_fail):
    """history: list of dicts module -> (oids, identity, enterprise, compliance) indexed so far (all builds)"""
    known = {}
    for results in history:
        for m, r in results.items():
            known.setdefault(m, []).append(r)
    for m, rs in known.items():
        for (oids, ident, ent, comp) in rs:
            if ident and m not in idx['identity'].get(ident, []):
                clause_fail('identity_listed', 'module %s missing under identity %s' % (m, ident))
            if ent and m not in idx['enterprise'].get(ent, []):
                clause_fail('enterprise_listed', 'module %s missing under enterprise %s' % (m, ent))
            for c in comp:
                if m not in idx['compliance'].get(c, []):
                    clause_fail('compliance_listed', 'module %s missing under compliance %s' % (m, c))
            for o in oids:
                if not any(comp_prefix(p, o) and m in mods for p, mods in idx['oids'].items()):
                    clause_fail('every_oid_is_covered_by_a_component_wise_prefix_naming_its_module',
                                'OID %s of %s has no covering entry naming it: %s' % (o, m, idx['oids']))
    for p, mods in idx['oids'].items():
        for m in mods:
            if m in known and not any(p in r[0] for r in known[m]):
                clause_fail('a_module_is_listed_only_under_oids_it_defines', '%s listed under %s' % (m, p))


def run_scenario(gen, builds, clause_fail):
    old = None
    history = []
    for results in builds:
        processed = {m: mk_status(*r) for m, r in results.items()}
        text = gen.genIndex(processed, old_index_data=old) if old is not None else gen.genIndex(processed)
        idx = json.loads(text)
        history.append(results)
        check_index(idx, history, clause_fail)
        # re-indexing the same results changes nothing
        again = gen.genIndex({m: mk_status(*r) for m, r in results.items()}, old_index_data=text)
        if json.loads(again) != idx:
            clause_fail('reindexing_the_same_results_changes_nothing', 'index changes when the same results are indexed again')
        old = text


def scenarios(scope):
    uni = scope['universe']
    oidsets = [c for n in range(1, scope['max_oids'] + 1) for c in itertools.combinations(uni, n)]
    names = ['M%d' % i for i in range(scope['modules'])]
    # module results: identity = first OID or None; enterprise = last OID or None; compliance = () or (first,)
    variants = []
    for oids in oidsets:
        variants.append((oids, None, None, ()))
        variants.append((oids, oids[0], oids[-1], (oids[0],)))
    single = [(m, v) for m in names for v in variants]
    builds1 = [dict([a]) for a in single]
    pairs = [dict([a, b]) for a in single for b in single if a[0] < b[0]]
    return builds1, pairs


def replay(witness, clause):
    """re-run one recorded scenario; exit 10 if the clause fails again"""
    from pysmi.codegen.jsondoc import JsonCodeGen
    builds = [{m: (tuple(r[0]), r[1], r[2], tuple(r[3])) for m, r in b.items()} for b in witness['scenario']]
    seen = []
    try:
        run_scenario(JsonCodeGen(), builds, lambda c, msg: seen.append((c, msg)))
    except Exception as e:          # noqa
        seen.append(('no_exception', '%s: %s' % (type(e).__name__, e)))
    for c, msg in seen:
        if c == clause:
            print('REPRODUCED %s: %s' % (c, msg))
            return 10
    print('not reproduced')
    return 0


def main():
    tier = sys.argv[1] if len(sys.argv) > 1 else 'quick'
    scope = SCOPE[tier]
    from pysmi.codegen.jsondoc import JsonCodeGen
    gen = JsonCodeGen()
    fails = {}
    n = 0
    b1, b2 = scenarios(scope)
    import random
    rnd = random.Random(int(sys.argv[2]) if len(sys.argv) > 2 else 0)
    pool = b1 + (b2 if tier == 'thorough' else rnd.sample(b2, min(len(b2), 400)))
    first = pool
    seqs = ([(a,) for a in first] +
            [(a, b) for a in (b1 if tier == 'quick' else pool[::29]) for b in b1])
    if scope['builds'] >= 3:
        seqs += [(a, b, c) for a in b1[::11] for b in b1[::7] for c in b1[::5]]
    shard, nshards = (int(sys.argv[3]), int(sys.argv[4])) if len(sys.argv) > 4 else (0, 1)
    # distinct scenarios only (canonical form: the builds in order, modules sorted)
    canon = {}
    for builds in seqs:
        canon.setdefault(repr([sorted(b.items()) for b in builds]), builds)
    seqs = list(canon.values())
    nontrivial = 0
    sample = None
    for builds in seqs[shard::nshards]:
        n += 1
        cur = []
        # non-trivial: two different OIDs of the scenario are in a string-prefix relation, i.e. the compaction of
        # the "oids" section has a decision to take
        alloids = sorted({o for b in builds for r in b.values() for o in r[0]})
        if any(a != b_ and b_.startswith(a) for a in alloids for b_ in alloids):
            nontrivial += 1
            if sample is None:
                sample = [{m: [sorted(r[0]), r[1], r[2], list(r[3])] for m, r in b.items()} for b in builds]

        def clause_fail(clause, msg, builds=builds):
            if clause not in fails:
                fails[clause] = {'scenario': [{m: [sorted(r[0]), r[1], r[2], list(r[3])] for m, r in b.items()}
                                              for b in builds], 'what': msg}
        try:
            run_scenario(gen, builds, clause_fail)
        except Exception as e:                      # noqa
            clause_fail('no_exception', '%s: %s' % (type(e).__name__, e))
    clauses = ['identity_listed', 'enterprise_listed', 'compliance_listed',
               'every_oid_is_covered_by_a_component_wise_prefix_naming_its_module',
               'a_module_is_listed_only_under_oids_it_defines', 'reindexing_the_same_results_changes_nothing',
               'no_exception']
    print(json.dumps({'scenarios': n, 'nontrivial': nontrivial, 'sample': sample, 'scope': scope, 'clauses': clauses,
                      'fails': fails}))


if __name__ == '__main__':
    main()
