"""Runs a bounded stand-in (a native small-scope enumeration of the real function, /venv/bin/python) in shards and
turns its JSON verdict into obligations with verdict 'bounded-ok' (never counted as discharged) or 'refuted' (with a
native replay of the failing scenario)."""
import json
import os
import subprocess
import time
from concurrent.futures import ThreadPoolExecutor

HERE = os.path.dirname(os.path.abspath(__file__))
VENV_PY = '/venv/bin/python'


def run_sharded(script, tier, seed, nshards):
    repo = os.environ.get('VERIF_REPO', '/repo')
    env = dict(os.environ)
    env['PYTHONPATH'] = repo
    env['PYTHONHASHSEED'] = '0'

    def one(i):
        p = subprocess.run([VENV_PY, os.path.join(HERE, script), tier, str(seed), str(i), str(nshards)],
                           capture_output=True, text=True, env=env, timeout=3000, cwd='/')
        if p.returncode != 0:
            raise RuntimeError('%s shard %d failed: %s' % (script, i, p.stderr[-800:]))
        return json.loads(p.stdout)
    with ThreadPoolExecutor(nshards) as ex:
        parts = list(ex.map(one, range(nshards)))
    out = {'scenarios': sum(p['scenarios'] for p in parts), 'scope': parts[0]['scope'], 'clauses': parts[0]['clauses'],
           'nontrivial': sum(p.get('nontrivial', 0) for p in parts),
           'samples': [p['sample'] for p in parts if p.get('sample')][:3], 'fails': {}}
    for p in parts:
        for k, v in p['fails'].items():
            out['fails'].setdefault(k, v)
    return out


def obligations(prefix, script, tier, seed, replay_template, nshards=None):
    t0 = time.time()
    n = nshards or (16 if tier == 'thorough' else 4)
    r = run_sharded(script, tier, seed, n)
    out = []
    for c in r['clauses']:
        f = r['fails'].get(c)
        d = {'name': '%s.%s' % (prefix, c), 'kind': 'bounded', 'line': None, 'backend': 'bounded-enumeration',
             't': round(time.time() - t0, 2),
             'info': {'clause': c, 'bounded': True, 'scope': r['scope'], 'scenarios_executed': r['scenarios'],
                      'nontrivial': r['nontrivial'], 'scenario_samples': r['samples'],
                      'note': 'bounded stand-in: every scenario of the stated scope executed on the real function; '
                              'not a proof'}}
        if f is None:
            d['verdict'] = 'bounded-ok'
        else:
            d['verdict'] = 'refuted'
            d['info']['what'] = f['what']
            d['witness'] = f
            d['replay_code'] = replay_template % {'clause': c}
        out.append(d)
    return out
