"""Bounded stand-ins for C14: FileReader (directory walk, read, .index) and getReadersFromUrls (scheme dispatch), run
natively on the real code for every case of a stated small scope.  Runs under /venv/bin/python with
PYTHONPATH=$VERIF_REPO.  NOT a proof.

FileReader scope: a root with the sub-directories sub/ and sub/deep/; up to 2 entries drawn from
{regular file, empty file, directory} x names {TEST-MIB.txt, test-mib, TEST.mib, OTHER-MIB.my} x 3 places; optionally an
.index file mapping TEST-MIB (to a file that exists / does not exist); requests TEST-MIB, test-mib, TEST, OTHER-MIB,
NOSUCH-MIB; fuzzy matching on and off.
URL scope: schemes '', file, zip, http, https, ftp, sftp, gopher x 5 path shapes x with/without host and port.
"""
import itertools
import json
import os
import shutil
import sys
import tempfile

NAMES = ['TEST-MIB.txt', 'test-mib', 'TEST.mib', 'OTHER-MIB.my']
PLACES = ['', 'sub', 'sub/deep']
KINDS = ['file', 'dir']
REQUESTS = ['TEST-MIB', 'test-mib', 'TEST', 'OTHER-MIB', 'NOSUCH-MIB']


def text_of(place, name):
    return '-- %s/%s\n%s DEFINITIONS ::= BEGIN END\n' % (place, name, name.split('.')[0].upper())


def materialise(root, entries, index):
    for p in PLACES:
        os.makedirs(os.path.join(root, p), exist_ok=True)
    mt = {}
    for i, (kind, place, name) in enumerate(entries):
        f = os.path.join(root, place, name)
        if kind == 'dir':
            os.makedirs(f, exist_ok=True)
        else:
            with open(f, 'w') as fp:
                fp.write(text_of(place, name))
            t = 1500000000 + 1000 * i
            os.utime(f, (t, t))
            mt[f] = t
    if index is not None:
        with open(os.path.join(root, '.index'), 'w') as fp:
            fp.write('TEST-MIB %s\n' % index)
    return mt


def file_scenarios(tier):
    es = [(k, p, n) for k in KINDS for p in PLACES for n in NAMES]
    one = [(e,) for e in es]
    two = [c for c in itertools.combinations(es, 2) if (c[0][1], c[0][2]) != (c[1][1], c[1][2])]
    if tier != 'thorough':
        two = two[::7]
    out = []
    for ents in [()] + one + two:
        for index in (None, 'TEST.mib', 'GONE.mib'):
            if index is not None and tier != 'thorough' and len(ents) == 2 and hash(str(ents)) % 3:
                continue
            for fuzzy in (True, False):
                out.append((ents, index, fuzzy))
    return out


def check_files(root, ents, index, fuzzy, fail):
    from pysmi.reader.localfile import FileReader
    from pysmi import error
    mt = materialise(root, ents, index)
    files = {}          # base name -> [(path, text, mtime)] regular files
    for kind, place, name in ents:
        if kind == 'file':
            f = os.path.join(root, place, name)
            files.setdefault(name, []).append((f, text_of(place, name), mt[f]))
    for req in REQUESTS:
        r = FileReader(root).setOptions(fuzzyMatching=fuzzy)
        vs = list(r.getMibVariants(req))
        names = [f for a, f in vs]
        if index is not None and req == 'TEST-MIB' and names != [index]:
            fail('an_index_entry_is_the_only_variant', 'request %s with .index -> %s: variants %s' % (req, index, names[:4]))
        cands = [n for n in names if n in files]
        try:
            info, text = r.getData(req)
        except error.PySmiReaderFileNotFoundError:
            if cands:
                fail('a_file_named_like_a_variant_is_found', 'request %s: not found although %s exist' % (req, cands))
            continue
        except Exception as e:                                      # noqa
            fail('only_package_errors_are_raised', 'request %s: %s: %s' % (req, type(e).__name__, e))
            continue
        if info.file not in names:
            fail('the_returned_file_is_named_like_a_variant', 'request %s: got %s' % (req, info.file))
            continue
        hits = files.get(info.file, [])
        if not any(text == t for f, t, m in hits):
            fail('the_returned_text_is_the_content_of_that_file', 'request %s: file %s (a directory or another file?)' % (req, info.file))
        elif not any(text == t and info.mtime == m for f, t, m in hits):
            fail('the_returned_mtime_is_that_files', 'request %s: file %s mtime %s' % (req, info.file, info.mtime))
        if (info.name, info.file) not in vs:
            fail('the_alias_belongs_to_the_file_name', 'request %s: alias %s file %s' % (req, info.name, info.file))


URLS = [(s, h, p) for s in ('', 'file', 'zip', 'http', 'https', 'ftp', 'sftp', 'gopher')
        for h in ('', 'host.example', 'host.example:8080')
        for p in ('/x/mibs', '/x/mibs.zip', '/x/MIBS.ZIP', '/x/mibs.zip/', '/x/@mib@')]


def check_url(s, h, p, fail):
    from pysmi.reader.url import getReadersFromUrls
    from pysmi import error
    if (s in ('', 'file', 'zip') and h) or (s in ('http', 'https', 'ftp', 'sftp') and not h):
        return False        # (local schemes take no host; a network URL without a host is not a case of the statement)
    if s in ('ftp', 'sftp', 'http', 'https') and '@mib@' not in p:
        return False        # (network readers require the @mib@ placeholder in the location: rejected by design)
    url = (s + ':' if s else '') + ('//' + h if h or s in ('http', 'https', 'ftp', 'sftp', 'gopher') else '') + p
    try:
        rs = getReadersFromUrls(url, fuzzyMatching=False)
    except error.PySmiError:
        if s != 'gopher':
            fail('a_known_scheme_gives_a_reader', '%s: PySmiError' % url)
        return True
    except Exception as e:                                          # noqa
        fail('only_package_errors_are_raised', '%s: %s: %s' % (url, type(e).__name__, e))
        return True
    if s == 'gopher':
        fail('an_unknown_scheme_is_rejected', '%s -> %s' % (url, rs))
        return True
    if len(rs) != 1:
        fail('one_reader_per_url', '%s -> %d readers' % (url, len(rs)))
        return True
    r = rs[0]
    cls = type(r).__name__
    zipext = p.endswith('.zip') or p.endswith('.ZIP')
    want = None
    if s in ('http', 'https'):
        want = 'HttpReader'
    elif s in ('ftp', 'sftp'):
        want = 'FtpReader'
    elif s in ('', 'file') and not zipext:
        want = 'FileReader'
    elif s in ('', 'zip') and zipext:
        want = 'ZipReader'
    # file: + .zip  and  zip: without .zip  are left to the code (the statement does not decide them)
    if want is not None and cls != want:
        fail('scheme_and_extension_denote_the_reader_kind', '%s -> %s, expected %s' % (url, cls, want))
    if s in ('http', 'https') and bool(getattr(r, '_ssl', getattr(r, '_schema', None) == 'https')) != (s == 'https') and \
            '_ssl' in r.__dict__:
        fail('https_means_ssl', '%s -> ssl=%s' % (url, r.__dict__.get('_ssl')))
    if s in ('http', 'https') and getattr(r, '_schema', s) != s:
        fail('https_means_ssl', '%s -> schema %s' % (url, getattr(r, '_schema', None)))
    if r.fuzzyMatching is not False:
        fail('options_reach_every_reader', '%s: fuzzyMatching=%r' % (url, r.fuzzyMatching))
    return True


def main():
    tier = sys.argv[1] if len(sys.argv) > 1 else 'quick'
    shard, nshards = (int(sys.argv[3]), int(sys.argv[4])) if len(sys.argv) > 4 else (0, 1)
    fails = {}
    n = nontrivial = 0
    sample = None
    for ents, index, fuzzy in file_scenarios(tier)[shard::nshards]:
        n += 1
        shown = {'entries': [list(e) for e in ents], 'index': index, 'fuzzy': fuzzy}
        if len(ents) == 2 or index:
            nontrivial += 1
            if sample is None and len(ents) == 2:
                sample = shown
        root = tempfile.mkdtemp(prefix='c14fr')

        def fail(clause, what, shown=shown):
            fails.setdefault('FileReader.' + clause, {'case': shown, 'what': what})
        try:
            check_files(root, ents, index, fuzzy, fail)
        except Exception as e:                                      # noqa
            fail('only_package_errors_are_raised', '%s: %s' % (type(e).__name__, e))
        finally:
            shutil.rmtree(root, ignore_errors=True)
    if shard == 0:
        for s, h, p in URLS:
            def failu(clause, what, case=(s, h, p)):
                fails.setdefault('getReadersFromUrls.' + clause, {'case': {'url': list(case)}, 'what': what})
            if check_url(s, h, p, failu):
                n += 1
                nontrivial += 1
    clauses = ['FileReader.' + c for c in (
        'an_index_entry_is_the_only_variant', 'a_file_named_like_a_variant_is_found', 'the_returned_file_is_named_like_a_variant',
        'the_returned_text_is_the_content_of_that_file', 'the_returned_mtime_is_that_files', 'the_alias_belongs_to_the_file_name',
        'only_package_errors_are_raised')] + ['getReadersFromUrls.' + c for c in (
            'a_known_scheme_gives_a_reader', 'an_unknown_scheme_is_rejected', 'one_reader_per_url',
            'scheme_and_extension_denote_the_reader_kind', 'https_means_ssl', 'options_reach_every_reader',
            'only_package_errors_are_raised')]
    print(json.dumps({'scenarios': n, 'nontrivial': nontrivial, 'sample': sample,
                      'scope': {'names': NAMES, 'places': PLACES, 'kinds': KINDS, 'entries': 2, 'requests': REQUESTS,
                                'urls': len(URLS)}, 'clauses': clauses, 'fails': fails}))


def replay(witness, clause):
    seen = []
    case = witness['case']
    if 'url' in case:
        s, h, p = case['url']
        check_url(s, h, p, lambda c, w: seen.append(('getReadersFromUrls.' + c, w)))
    else:
        root = tempfile.mkdtemp(prefix='c14fr')
        try:
            check_files(root, [tuple(e) for e in case['entries']], case['index'], case['fuzzy'],
                        lambda c, w: seen.append(('FileReader.' + c, w)))
        except Exception as e:                                      # noqa
            seen.append(('FileReader.only_package_errors_are_raised', '%s: %s' % (type(e).__name__, e)))
        finally:
            shutil.rmtree(root, ignore_errors=True)
    for c, w in seen:
        if c == clause:
            print('REPRODUCED %s: %s' % (c, w))
            return 10
    print('not reproduced')
    return 0


if __name__ == '__main__':
    main()
