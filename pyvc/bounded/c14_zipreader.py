"""Bounded stand-in for C14 (ZipReader): zipfile internals are outside the verifier's reach, so the real ZipReader is run
on every archive of a stated small scope and the clauses of the property are evaluated on what it returns.
Runs under /venv/bin/python with PYTHONPATH=$VERIF_REPO.  NOT a proof.

Scope: archives nested to depth <= 3; at every level up to 2 plain members drawn from a pool of 4 (two names that
differ only in case / extension, one unrelated name, one empty file) placed in the top directory or a sub-directory,
and optionally one nested archive; member contents identify (level, name); every requested name of a small list.
"""
import datetime
import io
import itertools
import json
import os
import sys
import tempfile
import time
import zipfile

POOL = ['TEST-MIB.txt', 'test-mib', 'OTHER-MIB.my', 'EMPTY-MIB.mib']
DIRS = ['', 'sub/']
REQUESTS = ['TEST-MIB', 'test-mib', 'OTHER-MIB', 'EMPTY-MIB', 'TEST', 'NOSUCH-MIB']
DT = {0: (2020, 1, 2, 3, 4, 6), 1: (2021, 5, 6, 7, 8, 10), 2: (2022, 9, 10, 11, 12, 14)}


def content(level, name):
    if name.startswith('EMPTY'):
        return b''
    return ('-- level %d file %s\n%s DEFINITIONS ::= BEGIN END\n' % (level, name, name.split('.')[0].upper())).encode()


def build(spec, level=0):
    """spec: (tuple of (dir, name) members, nested spec or None) -> zip bytes"""
    members, nested = spec
    b = io.BytesIO()
    with zipfile.ZipFile(b, 'w') as z:
        for d, n in members:
            z.writestr(zipfile.ZipInfo(d + n, date_time=DT[level]), content(level, n))
        if nested is not None:
            z.writestr(zipfile.ZipInfo('nested/level%d.zip' % (level + 1), date_time=DT[level]), build(nested, level + 1))
    return b.getvalue()


def all_members(spec, level=0):
    """[(level, basename, content, mtime)] of every plain member at every depth"""
    members, nested = spec
    mt = time.mktime(datetime.datetime(*DT[level]).timetuple())
    out = [(level, n, content(level, n), mt) for d, n in members]
    if nested is not None:
        out += all_members(nested, level + 1)
    return out


def level_specs():
    ms = [(d, n) for d in DIRS for n in POOL]
    out = [()]
    out += [(m,) for m in ms]
    out += [c for c in itertools.combinations(ms, 2) if c[0][1] != c[1][1] or c[0][0] != c[1][0]]
    return out


def scenarios(tier):
    lv = level_specs()
    small = [(), (('', 'TEST-MIB.txt'),), (('sub/', 'test-mib'),), (('', 'OTHER-MIB.my'), ('sub/', 'TEST-MIB.txt')),
             (('', 'EMPTY-MIB.mib'),)]
    out = []
    for top in lv:
        out.append((top, None))                                    # depth 1
    for top in (lv if tier == 'thorough' else small):
        for mid in small:
            out.append((top, (mid, None)))                          # depth 2
            for inner in small[1:4]:
                out.append((top, (mid, (inner, None))))             # depth 3
    return out


def variants_of(reader, name):
    return list(reader.getMibVariants(name))


def check(reader_cls, path, spec, fail):
    from pysmi import error
    members = all_members(spec)
    for req in REQUESTS:
        r = reader_cls(path)
        vs = variants_of(r, req)
        files = [f for a, f in vs]
        cands = [m for m in members if m[1] in files and m[2]]
        try:
            info, text = r.getData(req)
        except error.PySmiReaderFileNotFoundError:
            if cands:
                fail('a_member_named_like_a_variant_is_found',
                     'request %s: not found although the archive holds %s' % (req, sorted({c[1] for c in cands})))
            continue
        except Exception as e:                                      # noqa
            fail('only_the_not_found_error_is_raised', 'request %s: %s: %s' % (req, type(e).__name__, e))
            continue
        if info.file not in files:
            fail('the_returned_file_is_named_like_a_variant', 'request %s: got file %s' % (req, info.file))
            continue
        same = [m for m in members if m[1] == info.file]
        if not any(text == m[2].decode() for m in same):
            fail('the_returned_text_is_the_content_of_that_member', 'request %s: file %s: unexpected text %r' % (req, info.file, text[:40]))
        elif not any(text == m[2].decode() and info.mtime == m[3] for m in same):
            fail('the_returned_mtime_is_that_members', 'request %s: file %s: mtime %s, members %s' %
                 (req, info.file, info.mtime, [(m[0], m[3]) for m in same]))
        if (info.name, info.file) not in vs:
            fail('the_alias_belongs_to_the_file_name', 'request %s: alias %s file %s' % (req, info.name, info.file))


def main():
    # ZIP time stamps are local times: run in a zone that is not UTC, so that a UTC-based conversion shows
    os.environ['TZ'] = 'JST-9'
    time.tzset()
    tier = sys.argv[1] if len(sys.argv) > 1 else 'quick'
    shard, nshards = (int(sys.argv[3]), int(sys.argv[4])) if len(sys.argv) > 4 else (0, 1)
    from pysmi.reader.zipreader import ZipReader
    fails = {}
    n = nontrivial = 0
    sample = None
    d = tempfile.mkdtemp(prefix='c14zip')
    path = os.path.join(d, 'mibs.zip')
    try:
        for spec in scenarios(tier)[shard::nshards]:
            n += 1
            shown = json.loads(json.dumps(spec))
            if spec[1] is not None:
                nontrivial += 1
                if sample is None:
                    sample = shown
            with open(path, 'wb') as f:
                f.write(build(spec))

            def fail(clause, what, shown=shown):
                fails.setdefault(clause, {'archive': shown, 'what': what})
            try:
                check(ZipReader, path, spec, fail)
            except Exception as e:                                  # noqa
                fail('only_the_not_found_error_is_raised', '%s: %s' % (type(e).__name__, e))
    finally:
        import shutil
        shutil.rmtree(d, ignore_errors=True)
    clauses = ['a_member_named_like_a_variant_is_found', 'the_returned_file_is_named_like_a_variant',
               'the_returned_text_is_the_content_of_that_member', 'the_returned_mtime_is_that_members',
               'the_alias_belongs_to_the_file_name', 'only_the_not_found_error_is_raised']
    print(json.dumps({'scenarios': n, 'nontrivial': nontrivial, 'sample': sample,
                      'scope': {'depth': 3, 'members_per_level': 2, 'pool': POOL, 'dirs': DIRS, 'requests': REQUESTS},
                      'clauses': clauses, 'fails': fails}))


def replay(witness, clause):
    os.environ['TZ'] = 'JST-9'
    time.tzset()
    from pysmi.reader.zipreader import ZipReader
    spec = json.loads(json.dumps(witness['archive']), object_hook=None)

    def tup(x):
        return tuple(tup(y) for y in x) if isinstance(x, list) else x
    spec = tup(spec)
    seen = []
    d = tempfile.mkdtemp(prefix='c14zip')
    path = os.path.join(d, 'mibs.zip')
    try:
        with open(path, 'wb') as f:
            f.write(build(spec))
        try:
            check(ZipReader, path, spec, lambda c, w: seen.append((c, w)))
        except Exception as e:                                      # noqa
            seen.append(('only_the_not_found_error_is_raised', '%s: %s' % (type(e).__name__, e)))
    finally:
        import shutil
        shutil.rmtree(d, ignore_errors=True)
    for c, w in seen:
        if c == clause:
            print('REPRODUCED %s: %s' % (c, w))
            return 10
    print('not reproduced')
    return 0


if __name__ == '__main__':
    main()
