"""C16: dump of the SMIv1 -> SMIv2 data of the real classes, and a bounded stand-in for the rewriting the two genImports
perform with the shipped table.  Runs under /venv/bin/python with PYTHONPATH=$VERIF_REPO (the real code).

mode 'dump'    : prints the tables as JSON (consumed by pyvc/extras_tables.py, which states the lemmas)
mode 'convert' : for EVERY entry (module, symbol) of the shipped conversion table the real functions are run on the
                 import clause {module: [symbol, 'zzLocal']} (and on a clause that also imports from the target module
                 directly), SymtableCodeGen.genImports first, IntermediateCodeGen.genImports on the rewritten clause
                 as compile() does; exhaustive over the table entries, NOT over import clauses: bounded, not a proof.
"""
import ast
import glob
import json
import os
import sys


def pysnmp_exports():
    """module name -> exported symbol names, read from the exportSymbols() calls of the SMI modules pysnmp ships"""
    import pysnmp.smi.mibs as M
    out = {}
    for f in glob.glob(os.path.join(os.path.dirname(M.__file__), '*.py')):
        name = os.path.basename(f)[:-3]
        if name.startswith('__'):
            continue
        try:
            tree = ast.parse(open(f, encoding='utf-8').read())
        except SyntaxError:
            continue
        syms = set()
        for n in ast.walk(tree):
            if isinstance(n, ast.Call) and isinstance(n.func, ast.Attribute) and n.func.attr in ('exportSymbols', 'export_symbols'):
                for kw in n.keywords:
                    if kw.arg:
                        syms.add(kw.arg)
                    elif isinstance(kw.value, ast.Dict):
                        for k in kw.value.keys:
                            if isinstance(k, ast.Constant):
                                syms.add(k.value)
        out[name] = sorted(syms)
    return out


def snmpv2_mib_oids():
    """object name -> OID of the objects the installed pysnmp's SNMPv2-MIB defines (read from its source text)"""
    import re
    import pysnmp.smi.mibs as M
    txt = open(os.path.join(os.path.dirname(M.__file__), 'SNMPv2-MIB.py'), encoding='utf-8').read()
    out = {}
    for m in re.finditer(r'^(\w+) = _\w+_Object\(\s*\(([\d, ]+)\)', txt, re.M):
        out[m.group(1)] = [int(x) for x in m.group(2).replace(' ', '').split(',') if x]
    return out


def dump():
    from pysmi.codegen.symtable import SymtableCodeGen
    from pysmi.codegen.intermediate import IntermediateCodeGen
    from pysmi.codegen.pysnmp import PySnmpCodeGen
    from pysmi.lexer.smi import lexerFactory, SmiV2Lexer
    v1 = lexerFactory(supportSmiV1Keywords=True)
    d = {
        'symtable.convertImportv2': SymtableCodeGen.convertImportv2,
        'intermediate.convertImportv2': IntermediateCodeGen.convertImportv2,
        'symtable.constImports': SymtableCodeGen.constImports,
        'intermediate.constImports': IntermediateCodeGen.constImports,
        'symtable.typeClasses': SymtableCodeGen.typeClasses,
        'symtable.symsTable': SymtableCodeGen.symsTable,
        'pysnmp.SMI_TYPES': PySnmpCodeGen.SMI_TYPES,
        'intermediate.SMI_TYPES': getattr(IntermediateCodeGen, 'SMI_TYPES', {}),
        'lexer.reserved.v2': dict(SmiV2Lexer.reserved),
        'lexer.reserved.v1': dict(v1.reserved),
        'pysnmp_exports': pysnmp_exports(),
        'snmpv2_mib_oids': snmpv2_mib_oids(),
    }
    print(json.dumps(d, default=lambda o: list(o)))


def convert():
    from pysmi.codegen.symtable import SymtableCodeGen
    from pysmi.codegen.intermediate import IntermediateCodeGen
    T = SymtableCodeGen.convertImportv2
    fails = {}
    n = 0
    nontrivial = 0
    sample = None

    def fail(clause, what, clause_in):
        fails.setdefault(clause, {'imports': clause_in, 'what': what})

    for m in sorted(T):
        for s in sorted(T[m]):
            targets = [tuple(p) for p in T[m][s]]
            for variant in (0, 1):
                clause = {m: [s, 'zzLocal']}
                if variant == 1:
                    # the target module is imported from directly as well (an SMIv1 module mixing both)
                    clause[targets[0][0]] = ['zzOther'] if targets[0][0] != m else clause[m]
                n += 1
                if len(targets) > 1 or variant == 1:
                    nontrivial += 1
                shown = json.loads(json.dumps(clause))
                if sample is None:
                    sample = shown
                try:
                    st = SymtableCodeGen()
                    st.moduleName[0] = 'T-MIB'
                    out, imported = st.genImports(clause)
                    ic = IntermediateCodeGen()
                    ic.moduleName[0] = 'T-MIB'
                    rec, imported2 = ic.genImports(clause)
                except Exception as e:      # noqa
                    fail('no_exception', '%s: %s' % (type(e).__name__, e), shown)
                    continue
                rec = rec['imports']
                # the converted symbol is no longer imported from the SMIv1 module
                if s in clause.get(m, []) and (m, s) not in targets:
                    fail('a_converted_symbol_leaves_its_smiv1_module', '%s still imported from %s' % (s, m), shown)
                if s in rec.get(m, []) and (m, s) not in targets:
                    fail('a_converted_symbol_leaves_its_smiv1_module', '%s still in the imports record under %s' % (s, m), shown)
                # every target is imported from its SMIv2 module: in the rewritten clause, the record, both import maps
                for (m2, s2) in targets:
                    if s2 not in clause.get(m2, []) or s2 not in rec.get(m2, []):
                        fail('every_target_is_imported_from_its_smiv2_module', '%s missing under %s' % (s2, m2), shown)
                    for t in st.symTrans(s2):
                        if st._importMap.get(st.transOpers(t)) not in (m2,) and (m2, s2) == targets[-1]:
                            fail('the_import_maps_attribute_the_target_to_its_smiv2_module',
                                 'symbol table attributes %s to %s' % (t, st._importMap.get(st.transOpers(t))), shown)
                    if ic._importMap.get(ic.transOpers(s2)) != m2 and (m2, s2) == targets[-1]:
                        fail('the_import_maps_attribute_the_target_to_its_smiv2_module',
                             'code generator attributes %s to %s' % (s2, ic._importMap.get(ic.transOpers(s2))), shown)
                    if m2 not in imported or m2 not in imported2:
                        fail('every_target_is_imported_from_its_smiv2_module', 'module %s not reported' % m2, shown)
                # unrelated symbols stay where they are
                if 'zzLocal' not in clause.get(m, []) or 'zzLocal' not in rec.get(m, []):
                    fail('other_imports_are_preserved', 'zzLocal lost from %s' % m, shown)
    clauses = ['no_exception', 'a_converted_symbol_leaves_its_smiv1_module', 'every_target_is_imported_from_its_smiv2_module',
               'the_import_maps_attribute_the_target_to_its_smiv2_module', 'other_imports_are_preserved']
    print(json.dumps({'scenarios': n, 'nontrivial': nontrivial, 'sample': sample,
                      'scope': {'entries': sum(len(t) for t in T.values()), 'modules': len(T),
                                'clauses_per_entry': 2}, 'clauses': clauses, 'fails': fails}))


def replay(witness, clause):
    """re-run the conversion check; exit 10 if the clause fails again for the recorded import clause"""
    import io, contextlib
    buf = io.StringIO()
    with contextlib.redirect_stdout(buf):
        convert()
    r = json.loads(buf.getvalue())
    f = r['fails'].get(clause)
    if f:
        print('REPRODUCED %s: %s (import clause %s)' % (clause, f['what'], f['imports']))
        return 10
    print('not reproduced')
    return 0


if __name__ == '__main__':
    mode = sys.argv[1] if len(sys.argv) > 1 else 'dump'
    if mode in ('quick', 'thorough'):       # called through the bounded runner: <tier> <seed> <shard> <nshards>
        convert()
    elif mode == 'convert':
        convert()
    else:
        dump()
