"""Check driver: runs the contracts serving one property, decides, writes evidence.

Exit codes: 0 held / 1 violation (VIOLATION line) / 2 undecided / 3 checker error.
"""
import argparse
import importlib
import json
import multiprocessing as mp
import os
import sys
import time
import traceback

VERIF = os.path.dirname(os.path.dirname(os.path.abspath(__file__)))
CONTRACT_MODULES = ['lexer', 'codegen_base', 'parser_actions', 'intermediate', 'symtable', 'compiler',
                    'writers', 'searchers', 'borrowers', 'readers', 'jsonindex', 'pysnmp_adapt', 'scripts']


def load_contracts():
    out = []
    for m in CONTRACT_MODULES:
        path = os.path.join(VERIF, 'contracts', m + '.py')
        if not os.path.exists(path):
            continue
        mod = importlib.import_module('contracts.' + m)
        for c in mod.CONTRACTS:
            if c.cases:
                for name, over in c.cases:
                    out.append(c.variant(name, **over))
            else:
                out.append(c)
    return out


def load_known():
    p = os.path.join(VERIF, 'known_findings.json')
    if not os.path.exists(p):
        return []
    with open(p) as f:
        return json.load(f).get('findings', [])


def make_world(contracts):
    from .interp import World
    from . import models
    w = World()
    models.install(w)
    for c in contracts:
        base = c.id.split('[')[0]
        if '[' not in c.id:
            w.contracts[c.func] = c
        else:
            w.contracts.setdefault(c.func, c)
    return w


_W = {}


def _verify_one(args):
    """worker: verify one contract, return a picklable summary."""
    cid, tier, known = args
    try:
        from .verify import verify_contract, discharge, concretize
        from .explore import SolverCache
        contracts = _W['contracts']
        c = [x for x in contracts if x.id == cid][0]
        w = _W['world']
        t0 = time.time()
        rep = verify_contract(w, c, SolverCache(), max_paths=20000 if tier == 'thorough' else 6000)
        timeout = 30000 if tier == 'thorough' else 10000
        discharge(rep, timeout)
        obs = []
        for ob, verdict, backend, dt, model in rep.results:
            d = {'name': ob.name, 'verdict': verdict, 'backend': backend, 't': round(dt, 4), 'line': ob.line,
                 'kind': ob.kind, 'info': ob.info, 'path': list(ob.path or ())}
            if verdict == 'refuted' and model is not None and rep.inputs is not None:
                try:
                    d['inputs'] = {k: concretize(v, model) for k, v in rep.inputs.items()}
                except Exception as e:      # noqa
                    d['inputs_error'] = repr(e)
                d['model'] = str(model)[:2000]
            obs.append(d)
        return {'id': cid, 'file': c.file, 'func': c.func, 'hash': rep.src_hash, 'line': rep.line,
                'paths': rep.paths, 'obligations': obs, 'notes': rep.notes, 'unsupported': rep.unsupported,
                'covers': sorted(rep.covers), 'vacuous': rep.vacuous, 'wall': round(time.time() - t0, 3),
                'trusted': c.trusted, 'serves': c.serves, 'replay': c.replay}
    except Exception:
        return {'id': cid, 'error': traceback.format_exc(), 'obligations': [], 'notes': [], 'unsupported': [],
                'covers': [], 'vacuous': False, 'paths': 0, 'wall': 0, 'serves': []}


def run_property(pid, tier, seed, only=None, jobs=None):
    t0 = time.time()
    contracts = load_contracts()
    mine = [c for c in contracts if pid in c.serves and not c.trusted]
    if only:
        mine = [c for c in mine if any(o in c.id for o in only)]
    world = make_world(contracts)
    _W['contracts'] = contracts
    _W['world'] = world
    known = [k for k in load_known() if k.get('property') == pid]
    jobs = jobs or min(16, max(1, len(mine)))
    work = [(c.id, tier, known) for c in mine]
    if jobs > 1 and len(work) > 1:
        ctx = mp.get_context('fork')
        with ctx.Pool(jobs) as pool:
            reports = pool.map(_verify_one, work, chunksize=1)
    else:
        reports = [_verify_one(wk) for wk in work]
    # extra (non-function) obligations of this property: lemmas, table invariants, regex obligations
    extras = []
    try:
        from . import extras as X
        extras = X.run(pid, tier, seed, world)
    except ImportError:
        pass
    return finish(pid, tier, seed, mine, contracts, reports, extras, known, time.time() - t0)


def finish(pid, tier, seed, mine, contracts, reports, extras, known, wall):
    from .report import decide
    return decide(pid, tier, seed, mine, contracts, reports, extras, known, wall)


def main(argv=None):
    ap = argparse.ArgumentParser()
    ap.add_argument('property')
    ap.add_argument('--tier', default='quick')
    ap.add_argument('--only', action='append')
    ap.add_argument('--jobs', type=int)
    ap.add_argument('--replay')
    a = ap.parse_args(argv)
    tier = os.environ.get('VERIF_TIER') or a.tier
    seed = int(os.environ.get('VERIF_SEED', '0') or 0)
    sys.path.insert(0, VERIF)
    if a.replay:
        from .report import run_replay
        return run_replay(a.replay)
    try:
        return run_property(a.property, tier, seed, a.only, a.jobs)
    except Exception:
        traceback.print_exc()
        return 3
