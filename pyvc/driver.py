"""Check driver: runs the contracts serving one property, decides, writes evidence.

Exit codes: 0 held / 1 violation (VIOLATION line) / 2 undecided / 3 checker error.
"""
import argparse
import importlib
import json
import multiprocessing as mp
import os
import sys
import time
import traceback

VERIF = os.path.dirname(os.path.dirname(os.path.abspath(__file__)))
CONTRACT_MODULES = ['lexer', 'codegen_base', 'parser_actions', 'intermediate', 'symtable', 'compiler',
                    'imports', 'writers', 'searchers', 'borrowers', 'factories', 'codegen_render', 'readers', 'jsonindex', 'pysnmp_adapt', 'scripts']


def load_contracts():
    out = []
    for m in CONTRACT_MODULES:
        path = os.path.join(VERIF, 'contracts', m + '.py')
        if not os.path.exists(path):
            continue
        mod = importlib.import_module('contracts.' + m)
        for c in mod.CONTRACTS:
            if c.cases:
                for name, over in c.cases:
                    out.append(c.variant(name, **over))
            else:
                out.append(c)
    return out


def load_known():
    p = os.path.join(VERIF, 'known_findings.json')
    if not os.path.exists(p):
        return []
    with open(p) as f:
        return json.load(f).get('findings', [])


def make_world(contracts):
    from .interp import World
    from . import models
    w = World()
    models.install(w)
    for c in contracts:
        if 'standalone' in c.notes:
            continue        # verified on its own, never applied at call sites (callers execute the callee's body)
        base = c.id.split('[')[0]
        if '[' not in c.id:
            w.contracts[c.func] = c
        else:
            w.contracts.setdefault(c.func, c)
    return w


def summarize(rep, c):
    return {'id': c.id, 'file': c.file, 'func': c.func, 'hash': rep.src_hash, 'line': rep.line,
            'paths': rep.paths, 'obligations': list(getattr(rep, 'summary', None) or []), 'notes': rep.notes,
            'unsupported': rep.unsupported, 'covers': sorted(rep.covers), 'vacuous': rep.vacuous,
            'wall': round(rep.wall, 3), 'trusted': c.trusted, 'serves': c.serves, 'replay': c.replay}


_GEN = {}


def _gen_one(i):
    from .verify import verify_contract
    from .explore import SolverCache
    c, tier = _GEN['mine'][i], _GEN['tier']
    return verify_contract(_GEN['world'], c, SolverCache(timeout_ms=int(os.environ.get("VERIF_PRUNE_MS", 0)) or getattr(c, "prune_ms", None) or 1000),
                           max_paths=20000 if tier == 'thorough' else 8000)


def _light_worker(i):
    """VC generation + discharge of one contract inside a pool worker; returns the picklable summary"""
    from .verify import verify_contract, discharge_parallel
    from .explore import SolverCache
    c, tier, timeout = _GEN['mine'][i], _GEN['tier'], _GEN['timeout']
    try:
        rep = verify_contract(_GEN['world'], c, SolverCache(timeout_ms=int(os.environ.get("VERIF_PRUNE_MS", 0)) or getattr(c, "prune_ms", None) or 1000),
                              max_paths=20000 if tier == 'thorough' else 8000)
        discharge_parallel([rep], timeout, 1)
        retry_undischarged([rep], timeout * 2, limit=3)
        return summarize(rep, c)
    except Exception:
        return {'id': c.id, 'error': traceback.format_exc(), 'obligations': [], 'notes': [], 'unsupported': [],
                'covers': [], 'vacuous': False, 'paths': 0, 'wall': 0, 'serves': c.serves}


def run_property(pid, tier, seed, only=None, jobs=None):
    from .verify import verify_contract, discharge_parallel, FunctionReport
    from .explore import SolverCache
    import multiprocessing as mp
    t0 = time.time()
    contracts = load_contracts()
    known_all = load_known()
    for c in contracts:
        for k in known_all:
            if k.get('status', 'open') == 'open' and k.get('excluding') and k.get('contract') == c.id.split('[')[0]:
                for ob_ in k.get('obligations', [k['obligation']]):
                    c.known[ob_] = k['excluding']
    mine = [c for c in contracts if pid in c.serves and not c.trusted]
    if only:
        mine = [c for c in mine if any(o in c.id for o in only)]
    skipped = []
    if tier != 'thorough':
        skipped = [c.id for c in mine if c.tier == 'thorough']
        mine = [c for c in mine if c.tier != 'thorough']
    world = make_world(contracts)
    known = [k for k in known_all if k.get('property') == pid or pid in k.get('properties', [])]
    jobs = jobs or 16
    timeout = int(os.environ.get('VERIF_SOLVER_MS', 60000 if tier == 'thorough' else 20000))
    light = [c for c in mine if not c.heavy]
    heavy = [c for c in mine if c.heavy]
    reports = {}
    # light contracts: one pool task each (generation and discharge in the worker)
    _GEN.update(mine=light, tier=tier, world=world, timeout=timeout)
    if len(light) > 1 and jobs > 1:
        # (collected with an overall time limit: a worker that dies must not make the check wait for ever)
        budget = int(os.environ.get('VERIF_POOL_S', 0)) or (3600 if tier == 'thorough' else 900)
        pool = mp.get_context('fork').Pool(min(jobs, len(light)))
        try:
            pending = [pool.apply_async(_light_worker, (i,)) for i in range(len(light))]
            pool.close()
            out = []
            deadline = time.time() + budget
            for c_, r in zip(light, pending):
                try:
                    out.append(r.get(timeout=max(1.0, deadline - time.time())))
                except Exception as e:      # noqa  (mp.TimeoutError or a crashed worker)
                    out.append({'id': c_.id, 'file': c_.file, 'func': c_.func, 'hash': None, 'line': None, 'paths': 0,
                                'obligations': [], 'notes': [], 'covers': [], 'vacuous': False, 'wall': 0,
                                'trusted': c_.trusted, 'serves': c_.serves, 'replay': c_.replay,
                                'unsupported': ['no answer from the verification worker within %d s (%s)' % (budget, type(e).__name__)]})
        finally:
            pool.terminate()
    else:
        out = [_light_worker(i) for i in range(len(light))]
    for c, r in zip(light, out):
        reports[c.id] = r
    # heavy contracts: generated here, obligations discharged in a pool
    for c in heavy:
        try:
            rep = verify_contract(world, c, SolverCache(timeout_ms=int(os.environ.get("VERIF_PRUNE_MS", 0)) or getattr(c, "prune_ms", None) or 1000),
                                  max_paths=20000 if tier == 'thorough' else 8000)
            discharge_parallel([rep], timeout, jobs)
            retry_undischarged([rep], timeout * 3)
            reports[c.id] = summarize(rep, c)
        except Exception:
            reports[c.id] = {'id': c.id, 'error': traceback.format_exc(), 'obligations': [], 'notes': [],
                             'unsupported': [], 'covers': [], 'vacuous': False, 'paths': 0, 'wall': 0,
                             'serves': c.serves}
    reports = [reports[c.id] for c in mine]
    # extra (non-function) obligations of this property: lemmas, table invariants, regex obligations
    extras = []
    try:
        from . import extras as X
    except ImportError:
        X = None
    if X is not None:
        extras = X.run(pid, tier, seed, world)
    for cid in skipped[:6]:
        print('NOTE %s is verified in the thorough tier only (slow)' % cid)
    if len(skipped) > 6:
        print('NOTE ... and %d more contracts verified in the thorough tier only' % (len(skipped) - 6))
    return finish(pid, tier, seed, mine, contracts, reports, extras, known, time.time() - t0)


def retry_undischarged(reps, timeout_ms, limit=8):
    """Obligations left open by the pool are checked once more, one at a time on an otherwise idle machine
    (one path instance per obligation name, at most ``limit`` names), so that a verdict does not depend on
    the load of the parallel phase."""
    from .verify import check_obligation
    done = {}
    for rep in reps:
        for oi, d in enumerate(rep.summary or []):
            weak = d['verdict'] == 'candidate' and ('quantifier-free part' in d['backend'] or 'contradicts' in d['backend'])
            if d['verdict'] == 'unknown' or weak:
                if d['name'] not in done:
                    if len(done) >= limit:
                        continue
                    v, b, dt, model = check_obligation(rep.obligations[oi], timeout_ms)
                    done[d['name']] = v
                    if v == 'discharged':
                        d.update(verdict=v, backend=b + '(retry)', t=round(d['t'] + dt, 3))
                    continue
    # instances of a name whose retried representative was discharged are retried as well
    for rep in reps:
        for oi, d in enumerate(rep.summary or []):
            weak = d['verdict'] == 'candidate' and ('quantifier-free part' in d['backend'] or 'contradicts' in d['backend'])
            if (d['verdict'] == 'unknown' or weak) and done.get(d['name']) == 'discharged':
                v, b, dt, model = check_obligation(rep.obligations[oi], timeout_ms)
                if v == 'discharged':
                    d.update(verdict=v, backend=b + '(retry)', t=round(d['t'] + dt, 3))


def finish(pid, tier, seed, mine, contracts, reports, extras, known, wall):
    from .report import decide
    return decide(pid, tier, seed, mine, contracts, reports, extras, known, wall)


def main(argv=None):
    ap = argparse.ArgumentParser()
    ap.add_argument('property')
    ap.add_argument('--tier', default='quick')
    ap.add_argument('--only', action='append')
    ap.add_argument('--jobs', type=int)
    ap.add_argument('--replay')
    a = ap.parse_args(argv)
    tier = os.environ.get('VERIF_TIER') or a.tier
    seed = int(os.environ.get('VERIF_SEED', '0') or 0)
    sys.path.insert(0, VERIF)
    if a.only:
        os.environ['VERIF_ONLY'] = '1'
    if a.replay:
        from .report import run_replay
        return run_replay(a.replay)
    try:
        return run_property(a.property, tier, seed, a.only, a.jobs)
    except Exception:
        traceback.print_exc()
        return 3
