"""Translation of the Python regular expressions used by the PLY token rules into z3 regular
expressions.  Subset: literals, escapes, '.', character classes with ranges and negation,
grouping, alternation, ``* + ?`` (greedy or lazy - the *language* is the same), and one trailing
positive look-ahead ``(?=...)`` which is returned separately.  re.DOTALL is assumed (the lexer is
built with reflags=re.DOTALL), so '.' is any character.  Anything else raises Unsupported.
"""
import z3
from .pv import Unsupported

ANY = z3.AllChar(z3.ReSort(z3.StringSort()))
MAXCH = 0x2FFFF   # z3 string characters


def _ch(c):
    return z3.Re(z3.StringVal(c)) if ord(c) < 128 and c.isprintable() and c not in '\\"' else \
        z3.Range(z3.Unit(z3.CharVal(ord(c))), z3.Unit(z3.CharVal(ord(c))))


def _range(a, b):
    return z3.Range(z3.Unit(z3.CharVal(ord(a))), z3.Unit(z3.CharVal(ord(b))))


ESC = {'n': '\n', 'r': '\r', 't': '\t', 'f': '\f', 'v': '\v'}


class _P:
    def __init__(self, s):
        self.s, self.i = s, 0
        self.lookahead = None

    def peek(self):
        return self.s[self.i] if self.i < len(self.s) else None

    def alt(self):
        parts = [self.seq()]
        while self.peek() == '|':
            self.i += 1
            parts.append(self.seq())
        return parts[0] if len(parts) == 1 else z3.Union(*parts)

    def seq(self):
        items = []
        while self.peek() is not None and self.peek() not in '|)':
            a = self.atom()
            if a is None:
                continue
            while self.peek() is not None and self.peek() in '*+?':
                q = self.peek()
                self.i += 1
                if self.peek() == '?':      # lazy variant: same language
                    self.i += 1
                a = {'*': z3.Star, '+': z3.Plus, '?': z3.Option}[q](a)
            items.append(a)
        if not items:
            return z3.Re(z3.StringVal(''))
        return items[0] if len(items) == 1 else z3.Concat(*items)

    def atom(self):
        c = self.peek()
        self.i += 1
        if c == '(':
            if self.s.startswith('?=', self.i):
                self.i += 2
                la = self.alt()
                if self.peek() != ')':
                    raise Unsupported('regex: unbalanced look-ahead')
                self.i += 1
                if self.i != len(self.s):
                    raise Unsupported('regex: look-ahead not at the end')
                self.lookahead = la
                return None
            if self.peek() == '?':
                raise Unsupported('regex: group extension')
            a = self.alt()
            if self.peek() != ')':
                raise Unsupported('regex: unbalanced group')
            self.i += 1
            return a
        if c == '[':
            return self.cls()
        if c == '.':
            return ANY
        if c == '\\':
            e = self.peek()
            self.i += 1
            if e == 'd':
                return _range('0', '9')
            if e in 'wsWSDbB':
                raise Unsupported('regex: \\%s' % e)
            return _ch(ESC.get(e, e))
        if c in '^$':
            raise Unsupported('regex: anchors')
        if c == '{':
            raise Unsupported('regex: counted repetition')
        return _ch(c)

    def cls(self):
        neg = False
        if self.peek() == '^':
            neg = True
            self.i += 1
        members = []
        first = True
        while True:
            c = self.peek()
            if c is None:
                raise Unsupported('regex: unterminated class')
            if c == ']' and not first:
                self.i += 1
                break
            first = False
            self.i += 1
            if c == '\\':
                e = self.peek()
                self.i += 1
                if e == 'd':
                    members.append(('0', '9'))
                    continue
                c = ESC.get(e, e)
            if self.peek() == '-' and self.i + 1 < len(self.s) and self.s[self.i + 1] != ']':
                self.i += 1
                d = self.peek()
                self.i += 1
                if d == '\\':
                    d = ESC.get(self.peek(), self.peek())
                    self.i += 1
                members.append((c, d))
            else:
                members.append((c, c))
        u = [_range(a, b) for a, b in members]
        r = u[0] if len(u) == 1 else z3.Union(*u)
        if neg:
            r = z3.Intersect(ANY, z3.Complement(r))
        return r


def parse(rx):
    p = _P(rx)
    r = p.alt()
    if p.i != len(rx):
        raise Unsupported('regex: trailing input in %r' % rx)
    return r, p.lookahead


def py_regex_to_z3(rx):
    if not isinstance(rx, str):
        raise Unsupported('regex must be a concrete string')
    return parse(rx)[0]
