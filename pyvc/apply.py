"""Modular call rule: a call to a function under contract is replaced by its contract.

  assert  requires            (obligation  <caller>.call(<callee>)@L<line>.pre[i])
  havoc   assigns
  assume  ensures             (normal outcome, or one exceptional outcome per ``raises`` entry)

The callee's body is never looked at here.
"""
import ast
import z3
from . import pv
from .pv import SAny, VList, VDict, VSet, VObj, Unsupported, snapshot, truthy
from .contract import parse_expr, old_exprs, build
from .explore import PathEnd


def spec_eval(it, expr_src, env):
    """Evaluate a clause (string or AST) in pure mode -> value."""
    node = parse_expr(expr_src) if isinstance(expr_src, str) else expr_src
    from .interp import PyRaise
    it.ctx.spec_depth += 1
    try:
        return it.eval(node, env)
    except PyRaise as pr:
        raise Unsupported('specification expression %s raises %s' % (ast.unparse(node)[:80], pr.exc.cls))
    finally:
        it.ctx.spec_depth -= 1


def spec_bool(it, expr_src, env):
    t = truthy(spec_eval(it, expr_src, env))
    return pv.as_term_bool(t)


def take_old(it, clauses, env):
    """Snapshot the values of every old(e) occurring in clauses (evaluated now)."""
    store = {}
    for c in clauses:
        node = parse_expr(c) if isinstance(c, str) else c
        for e in old_exprs(node):
            k = ast.dump(e)
            if k not in store:
                store[k] = snapshot(spec_eval(it, e, env))
    return store


def resolve_location(it, env, path):
    """'self._out' / 't.value' / 'ghost:name' -> (container, key) for havoc."""
    if path.startswith('ghost:'):
        return ('ghost', path[6:])
    parts = path.split('.')
    try:
        base = env.lookup(parts[0])
    except KeyError:
        raise Unsupported('assigns: unknown root %s' % parts[0])
    for p in parts[1:-1]:
        base = it.getattr(base, p)
    if len(parts) == 1:
        return ('var', parts[0])
    return ('attr', base, parts[-1])


def havoc_value(it, v, hint='h', record=None):
    """Replace the contents of a mutable object in place, or return a fresh value for immutables."""
    ctx = it.ctx
    if isinstance(v, VList):
        it.mutating(v)
        if v.symbolic and v.elem == 'str':
            v.seq = ctx.fresh(z3.SeqSort(z3.StringSort()), hint)
        else:
            v.items = None
            v.seq = ctx.fresh(pv.PVSeq, hint)
            v.elem = 'any'
        return v
    if isinstance(v, VDict):
        it.mutating(v)
        v.keys = v.vals = None
        v.arr = ctx.fresh(pv.PVArr, hint)
        return v
    if isinstance(v, VSet):
        it.mutating(v)
        v.elems = None
        v.arr = ctx.fresh(pv.PVSetS, hint)
        return v
    return pv.fresh_like(v, ctx.fresh)


def havoc_location(it, env, path):
    loc = resolve_location(it, env, path)
    if loc[0] == 'ghost':
        cur = it.ctx.ghost.get(loc[1])
        it.ctx.ghost[loc[1]] = havoc_value(it, snapshot(cur), 'g_' + loc[1])
    elif loc[0] == 'var':
        env.set(loc[1], havoc_value(it, env.lookup(loc[1]), loc[1]))
    else:
        _, base, attr = loc
        if isinstance(base, VObj):
            cur = base.fields.get(attr)
            new = havoc_value(it, cur, attr)
            if new is not cur:
                it.mutating(base, attr)
                base.fields[attr] = new
        elif isinstance(base, VList) and attr.isdigit():
            base.items[int(attr)] = havoc_value(it, base.items[int(attr)], attr)
        else:
            raise Unsupported('assigns: cannot havoc %s' % path)


def apply_contract(it, c, fn, args, kwargs, line):
    from .interp import Env, PyRaise
    ctx = it.ctx
    caller = it.contract.id if it.contract else '?'
    env = Env(module=fn.module)
    it.bind_params(fn, env, list(args), dict(kwargs), line)
    # let-definitions of the callee (ghost abbreviations over its parameters)
    for name, ex in c.defs.items():
        env.set(name, spec_eval(it, ex, env))
    for name, ex in c.let.items():
        env.set(name, spec_eval(it, ex, env))
    for r in c.axioms:
        ctx.assume(spec_bool(it, r, env))
    # 1. precondition
    for i, r in enumerate(c.requires):
        g = spec_bool(it, r, env)
        ctx.oblige('%s.call(%s)@L%s.pre[%d]' % (caller, c.id, line, i), g, line, 'call-pre',
                   info={'callee': c.id, 'clause': r})
        ctx.assume(g)
    # 2. old-state snapshots for the callee's postconditions
    clauses = list(c.ensures.values()) + [v for v in c.raises.values() if isinstance(v, str)]
    saved_old = getattr(it, 'old_store', {})
    my_old = take_old(it, clauses, env)
    # 3. outcome
    exc_names = list(c.raises)
    d = ctx.choose(1 + len(exc_names), 'outcome(%s)@L%s' % (c.id, line))
    # 4. frame
    for path in c.assigns:
        havoc_location(it, env, path)
    it.old_store = my_old
    try:
        if d == 0:
            result = build(c.returns, it, 'ret_' + c.func.split('.')[-1])
            env.set('result', result)
            env.set('raised', False)
            env.set('exc', None)
            for name, ex in c.ensures.items():
                ctx.assume(spec_bool(it, ex, env))
            ctx.note('call of %s replaced by its contract' % c.id)
            return result
        ename = exc_names[d - 1]
        cond = c.raises[ename]
        exc = VObj(ename)
        exc.fields['msg'] = it.fresh_str('msg')
        for f, sh in c.exc_fields.get(ename, {}).items():
            exc.fields[f] = build(sh, it, 'exc_' + f)
        env.set('result', None)
        env.set('raised', True)
        env.set('exc', exc)
        if isinstance(cond, str):
            ctx.assume(spec_bool(it, cond, env))
        for name, ex in c.ensures.items():
            ctx.assume(spec_bool(it, ex, env))
        raise PyRaise(exc, line)
    finally:
        it.old_store = saved_old
