"""Locating the verified text: every run re-reads the working tree below $VERIF_REPO.

What is dropped from a function before symbolic execution (and nothing else):
  * non-PLY docstrings and comments (PLY docstrings are kept as data: grammar / token regex);
  * the decorator ``@staticmethod`` (parameter list analysed as written);
  * expression statements ``debug.logger & debug.flagX and debug.logger(...)``
    (``pysmi.debug.logger`` is the int 0 unless --debug: the call is never evaluated);
  * branches guarded by ``sys.version_info`` / ``LEX_VERSION`` / ``YACC_VERSION`` tests are
    constant-folded for CPython 3.12 with PLY 3.11 (the interpreter that runs the tests).
"""
import ast
import hashlib
import os

REPO = os.environ.get('VERIF_REPO', '/repo')


class SourceFile:
    _cache = {}

    def __init__(self, relpath):
        self.relpath = relpath
        self.path = os.path.join(REPO, relpath)
        with open(self.path, encoding='utf-8') as f:
            self.text = f.read()
        self.tree = ast.parse(self.text, filename=self.path)
        self.lines = self.text.splitlines()

    @classmethod
    def get(cls, relpath):
        key = (REPO, relpath)
        if key not in cls._cache:
            cls._cache[key] = SourceFile(relpath)
        return cls._cache[key]

    def find(self, qualname):
        """FunctionDef / ClassDef by dotted name; nested defs included (A.f.g)."""
        parts = qualname.split('.')
        body = self.tree.body
        node = None
        for p in parts:
            node = None
            for st in _walk_defs(body):
                if isinstance(st, (ast.FunctionDef, ast.ClassDef)) and st.name == p:
                    node = st
                    break
            if node is None:
                return None
            body = node.body
        return node

    def segment(self, node):
        return ast.get_source_segment(self.text, node) or ''

    def hash_of(self, node):
        return hashlib.sha256(self.segment(node).encode()).hexdigest()[:16]


def _walk_defs(body):
    """defs directly in a body, looking through if/try/for/with blocks (not into other defs)."""
    for st in body:
        if isinstance(st, (ast.FunctionDef, ast.ClassDef)):
            yield st
        elif isinstance(st, (ast.If, ast.For, ast.While, ast.With)):
            yield from _walk_defs(st.body)
            yield from _walk_defs(getattr(st, 'orelse', []))
        elif isinstance(st, ast.Try):
            yield from _walk_defs(st.body)
            for h in st.handlers:
                yield from _walk_defs(h.body)
            yield from _walk_defs(st.orelse)
            yield from _walk_defs(st.finalbody)


def is_debug_stmt(st):
    """``debug.logger & debug.flagX and debug.logger(...)`` (possibly parenthesised call)."""
    if not isinstance(st, ast.Expr):
        return False
    v = st.value
    if not (isinstance(v, ast.BoolOp) and isinstance(v.op, ast.And) and len(v.values) == 2):
        return False
    a = v.values[0]
    if not (isinstance(a, ast.BinOp) and isinstance(a.op, ast.BitAnd)):
        return False

    def is_dbg(n, attrprefix):
        return (isinstance(n, ast.Attribute) and isinstance(n.value, ast.Name)
                and n.value.id == 'debug' and n.attr.startswith(attrprefix))
    if not (is_dbg(a.left, 'logger') and is_dbg(a.right, 'flag')):
        return False
    c = v.values[1]
    return isinstance(c, ast.Call) and is_dbg(c.func, 'logger')


def docstring_of(fn):
    return ast.get_docstring(fn, clean=False)


def loops_of(fn):
    """Loop nodes of a function in source (pre-)order, not descending into nested defs."""
    out = []

    def rec(body):
        for st in body:
            if isinstance(st, (ast.FunctionDef, ast.ClassDef, ast.Lambda)):
                continue
            if isinstance(st, (ast.For, ast.While)):
                out.append(st)
            for fld in ('body', 'orelse', 'finalbody'):
                sub = getattr(st, fld, None)
                if isinstance(sub, list):
                    rec(sub)
            if isinstance(st, ast.Try):
                for h in st.handlers:
                    rec(h.body)
    rec(fn.body)
    return out
