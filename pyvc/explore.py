"""Path exploration by re-execution.

A *run* executes the analysed function from its entry under a decision prefix.  Every
point where the symbolic state allows several continuations calls ``ctx.choose`` (or
``ctx.branch`` for a boolean).  Decisions beyond the prefix take alternative 0 and the
other alternatives are queued as new prefixes.  Runs are deterministic (fresh names are
numbered per run, solver answers are cached by formula text), so a prefix replays to the
same state.  No state is ever copied.
"""
import time
import z3
from .pv import Unsupported


class PathEnd(Exception):
    """The current path is finished (infeasible, loop iteration closed, assume False)."""


class Budget(Exception):
    pass


_hq = {}


def has_quantifier(t):
    k = t.get_id()
    r = _hq.get(k)
    if r is None:
        r = _has_q(t, set())
        if len(_hq) > 300000:
            _hq.clear()
        _hq[k] = (r, t)       # keep the term alive: AST ids are recycled after collection
        return r
    return r[0]


def _has_q(t, seen):
    if t.get_id() in seen:
        return False
    seen.add(t.get_id())
    if z3.is_quantifier(t):
        return True
    return any(_has_q(c, seen) for c in t.children())


_csym = {}


def const_syms(t):
    """names of the uninterpreted constants of a term (cached; the term is kept alive)"""
    k = t.get_id()
    r = _csym.get(k)
    if r is not None:
        return r[0]
    out = set()
    seen = set()
    stack = [t]
    while stack:
        x = stack.pop()
        i = x.get_id()
        if i in seen:
            continue
        seen.add(i)
        if z3.is_quantifier(x):
            stack.append(x.body())
        elif z3.is_app(x):
            if x.num_args() == 0:
                if x.decl().kind() == z3.Z3_OP_UNINTERPRETED:
                    out.add(x.decl().name())
            else:
                stack.extend(x.children())
    if len(_csym) > 200000:
        _csym.clear()
    out = frozenset(out)
    _csym[k] = (out, t)
    return out


_wk = {}


def weaken(t, pol):
    """A quantifier-free formula implied by t (pol=True) / implying t (pol=False): quantified subformulas
    are replaced by True in positive and False in negative positions."""
    key = (t.get_id(), pol)
    r = _wk.get(key)
    if r is not None:
        return r[0]
    r = _weaken(t, pol)
    _wk[key] = (r, t)
    return r


def _weaken(t, pol):
    if not has_quantifier(t):
        return t
    if z3.is_quantifier(t):
        return z3.BoolVal(pol)
    if z3.is_and(t):
        return z3.And(*[weaken(c, pol) for c in t.children()])
    if z3.is_or(t):
        return z3.Or(*[weaken(c, pol) for c in t.children()])
    if z3.is_not(t):
        return z3.Not(weaken(t.arg(0), not pol))
    if z3.is_implies(t):
        return z3.Implies(weaken(t.arg(0), not pol), weaken(t.arg(1), pol))
    return z3.BoolVal(pol)


# --------------------------------------------------------------------------
# instantiation of universal facts for path pruning ("E-matching lite")

_pat_cache = {}


def _patterns(h):
    """for a fact  forall x. body  with one bound variable: the containers c such that body mentions c[x]
    (array select) or nth(c, x) with c free of bound variables"""
    k = h.get_id()
    r = _pat_cache.get(k)
    if r is not None:
        return r[0]
    out = []
    seen = set()

    def walk(t):
        i = t.get_id()
        if i in seen:
            return
        seen.add(i)
        if z3.is_quantifier(t):
            return          # (nested binders shift the indices: handled after the outer instantiation)
        if z3.is_app(t):
            kd = t.decl().kind()
            if kd in (z3.Z3_OP_SELECT, z3.Z3_OP_SEQ_NTH) and t.num_args() == 2 and z3.is_var(t.arg(1)) \
                    and z3.get_var_index(t.arg(1)) == 0 and not _has_var(t.arg(0)):
                out.append((kd, t.arg(0)))
            for c in t.children():
                walk(c)
    walk(h.body())
    uniq = []
    for kd, c in out:
        if not any(kd == k2 and c.eq(c2) for k2, c2 in uniq):
            uniq.append((kd, c))
    _pat_cache[k] = (uniq, h)
    return uniq


_hv = {}


def _has_var(t):
    k = t.get_id()
    r = _hv.get(k)
    if r is None:
        if z3.is_var(t):
            v = True
        elif z3.is_quantifier(t):
            v = True
        else:
            v = any(_has_var(c) for c in t.children())
        _hv[k] = (v, t)
        return v
    return r[0]


_gt_cache = {}


def _ground_index_terms(t):
    """(kind, container, index) for every select / nth application in a quantifier-free term"""
    k = t.get_id()
    r = _gt_cache.get(k)
    if r is not None:
        return r[0]
    out = []
    seen = set()
    stack = [t]
    while stack:
        x = stack.pop()
        i = x.get_id()
        if i in seen or z3.is_quantifier(x) or not z3.is_app(x):
            continue
        seen.add(i)
        kd = x.decl().kind()
        if kd in (z3.Z3_OP_SELECT, z3.Z3_OP_SEQ_NTH) and x.num_args() == 2:
            out.append((kd, x.arg(0), x.arg(1)))
        stack.extend(x.children())
    if len(_gt_cache) > 100000:
        _gt_cache.clear()
    _gt_cache[k] = (out, t)
    return out


_inst_cache = {}


def instances_for(facts, ground_terms, depth=2):
    """instances of the universal facts at the index terms that occur in ground_terms (only for pruning: every
    instance is implied by its fact)"""
    out = []
    if depth == 0:
        return out
    idx = []
    for g in ground_terms:
        idx.extend(_ground_index_terms(g))
    if not idx:
        return out
    for h in facts:
        if not (z3.is_quantifier(h) and h.is_forall() and h.num_vars() == 1):
            continue
        srt = h.var_sort(0)
        for kd, c in _patterns(h):
            for kd2, c2, key in idx:
                if kd2 == kd and key.sort() == srt and c2.eq(c):
                    tag = (h.get_id(), key.get_id())
                    inst = _inst_cache.get(tag)
                    if inst is None:
                        from .pv import ssimp
                        inst = ssimp(z3.substitute_vars(h.body(), key))
                        if len(_inst_cache) > 200000:
                            _inst_cache.clear()
                        _inst_cache[tag] = (inst, h, key)
                    else:
                        inst = inst[0]
                    out.append(inst)
    # instances that are themselves (conjunctions with) universal facts: one more round
    nested = []
    for t in out:
        for c in (t.children() if z3.is_and(t) else [t]):
            if z3.is_quantifier(c) and c.is_forall():
                nested.append(c)
            elif z3.is_implies(c) and z3.is_quantifier(c.arg(1)) and c.arg(1).is_forall():
                pass
    if nested:
        out.extend(instances_for(nested, ground_terms, depth - 1))
    return out


class SolverCache:
    def __init__(self, timeout_ms=4000):
        self.cache = {}
        self.timeout_ms = timeout_ms
        self.calls = 0
        self.time = 0.0
        self.unknown = 0

    def check(self, terms, timeout_ms=None):
        """'sat' / 'unsat' / 'unknown' for the conjunction of terms."""
        key = tuple(sorted(t.get_id() for t in terms))
        r = self.cache.get(key)
        if r is not None:
            return r[0]
        s = z3.Solver()
        s.set('timeout', timeout_ms or self.timeout_ms)
        for t in terms:
            s.add(t)
        t0 = time.time()
        r = str(s.check())
        self.time += time.time() - t0
        self.calls += 1
        if r == 'unknown':
            self.unknown += 1
        self.cache[key] = (r, terms)    # terms kept alive: AST ids stay valid
        return r


class Obligation:
    __slots__ = ('name', 'hyps', 'goal', 'line', 'kind', 'path', 'info', 'labels')

    def __init__(self, name, hyps, goal, line=None, kind='ensures', path=None, info=None):
        self.name, self.hyps, self.goal, self.line, self.kind, self.path, self.info = \
            name, list(hyps), goal, line, kind, path, info
        self.labels = None


class Ctx:
    def __init__(self, prefix, cache, limits=None):
        self.prefix = list(prefix)
        self.pos = 0
        self.trace = []          # decisions taken
        self.arity = []          # number of alternatives at each decision
        self.labels = []
        self.pc = []
        self.cache = cache
        self.nfresh = 0
        self.obligations = []
        self.ghost = {}
        self.notes = []          # assumptions / trusted models touched on this path
        self.covers = set()      # labels reached (vacuity / reachability)
        self.limits = limits or {}
        self.steps = 0
        self.spec_depth = 0      # >0 while evaluating a contract clause (pure mode)

    # ---- names
    def fresh(self, sort, hint='v'):
        self.nfresh += 1
        return z3.Const('%s!%d' % (hint, self.nfresh), sort)

    # ---- path condition
    def assume(self, t):
        if isinstance(t, bool):
            if not t:
                raise PathEnd()
            return
        from .pv import ssimp
        t = ssimp(t)
        if z3.is_true(t):
            return
        if z3.is_false(t):
            raise PathEnd()
        if z3.is_and(t):
            # keep conjuncts separate: the quantifier-free ones stay usable for path pruning
            for c in t.children():
                self.assume(c)
            return
        self.pc.append(t)



    def feasible(self, extra=None):
        """Pruning only: quantified hypotheses are left out (a weaker path condition can only keep
        more paths alive; their obligations are discharged later against the full hypotheses)."""
        terms = []
        quantified = []
        for t in self.pc:
            if has_quantifier(t):
                quantified.append(t)
                w = weaken(t, True)
                if not z3.is_true(w):
                    terms.append(w)
            else:
                terms.append(t)
        if extra is not None and quantified:
            # universal facts instantiated at the select / nth terms of the condition being decided
            for inst in instances_for(quantified, [extra]):
                if has_quantifier(inst):
                    inst = weaken(inst, True)
                if not z3.is_true(inst):
                    terms.append(inst)
        if extra is not None:
            # only the conjuncts in the cone of influence of the condition matter: the rest of the path
            # condition shares no symbol with it and is satisfiable (the path was reached)
            syms = set(const_syms(extra))
            info = [(t, const_syms(t)) for t in terms]
            chosen = [False] * len(info)
            changed = True
            while changed:
                changed = False
                for i, (t, ss) in enumerate(info):
                    if not chosen[i] and ss & syms:
                        chosen[i] = True
                        syms |= ss
                        changed = True
            terms = [t for (t, _), c in zip(info, chosen) if c]
            terms.append(extra)
        r = self.cache.check(terms)
        return r != 'unsat'

    def choose(self, n, label=''):
        """Nondeterministic choice among n alternatives (all assumed possible)."""
        if n <= 1:
            return 0
        if self.pos < len(self.prefix):
            d = self.prefix[self.pos]
        else:
            d = 0
        self.pos += 1
        self.trace.append(d)
        self.arity.append(n)
        self.labels.append(label)
        return d

    def branch(self, c, label=''):
        """Decide a boolean; forks only when both outcomes are feasible."""
        if isinstance(c, bool):
            return c
        from .pv import ssimp
        t = c.t if hasattr(c, 't') else c
        t = ssimp(t)
        if z3.is_true(t):
            return True
        if z3.is_false(t):
            return False
        can_t = self.feasible(t)
        can_f = self.feasible(z3.Not(t))
        if can_t and can_f:
            d = self.choose(2, label)
            if d == 0:
                self.pc.append(t)
                return True
            self.pc.append(z3.Not(t))
            return False
        if can_t:
            self.pc.append(t)      # keep the fact: later simplifications profit
            return True
        if can_f:
            self.pc.append(z3.Not(t))
            return False
        raise PathEnd()

    # ---- obligations
    def oblige(self, name, goal, line=None, kind='ensures', info=None):
        if isinstance(goal, bool):
            goal = z3.BoolVal(goal)
        elif hasattr(goal, 't'):
            goal = goal.t
        hook = getattr(self, 'known_hook', None)
        if hook is not None:
            ex = hook(name)
            if ex is not None:
                goal = z3.Or(ex, goal)
                info = dict(info or {}, excluded_by_known_finding=True)
        ob = Obligation(name, self.pc, goal, line, kind, tuple(self.trace), info)
        ob.labels = list(zip(self.labels, self.trace))
        self.obligations.append(ob)

    def note(self, s):
        if s not in self.notes:
            self.notes.append(s)

    def cover(self, label):
        self.covers.add(label)

    def tick(self):
        self.steps += 1
        if self.steps > self.limits.get('steps', 200000):
            raise Budget('step budget exhausted')


class Result:
    def __init__(self):
        self.obligations = []
        self.paths = 0
        self.covers = set()
        self.notes = []
        self.unsupported = []
        self.budget = None
        self.outcomes = []


def explore(run, cache=None, max_paths=4000):
    """run(ctx) executes one path; returns a Result with all obligations of all paths."""
    cache = cache or SolverCache()
    res = Result()
    work = [[]]
    while work:
        prefix = work.pop()
        ctx = Ctx(prefix, cache)
        try:
            out = run(ctx)
            res.outcomes.append(out)
        except PathEnd:
            pass
        except Budget as e:
            res.budget = str(e)
        except Unsupported as e:
            res.unsupported.append(str(e))
            import os
            if os.environ.get('PYVC_TRACE'):
                import traceback
                traceback.print_exc()
        res.paths += 1
        res.obligations.extend(ctx.obligations)
        res.covers |= ctx.covers
        for n in ctx.notes:
            if n not in res.notes:
                res.notes.append(n)
        # schedule alternatives for decisions made beyond the prefix
        for j in range(len(prefix), len(ctx.trace)):
            for alt in range(1, ctx.arity[j]):
                work.append(ctx.trace[:j] + [alt])
        if res.paths >= max_paths:
            res.budget = 'path budget (%d) exhausted' % max_paths
            break
    return res
