"""Second opinion: /usr/bin/cvc5 on the SMT-LIB2 text z3 printed."""
import subprocess
import tempfile
import time
import os
import re


def cvc5_check(smt2, timeout_ms=30000):
    t0 = time.time()
    # z3 prints (declare-datatypes ...) etc. in SMT-LIB 2.6; cvc5 needs a logic and string extensions
    text = '(set-logic ALL)\n' + smt2
    if '(check-sat)' not in text:
        text += '\n(check-sat)\n'
    fd, path = tempfile.mkstemp(suffix='.smt2', dir=os.environ.get('PYVC_TMP', '/dev/shm'))
    try:
        with os.fdopen(fd, 'w') as f:
            f.write(text)
        try:
            p = subprocess.run(['/usr/bin/cvc5', '--lang=smt2', '--strings-exp', '--tlimit=%d' % timeout_ms, path],
                               capture_output=True, text=True, timeout=timeout_ms / 1000.0 + 5)
            out = p.stdout.strip().splitlines()
            r = out[0].strip() if out else 'unknown'
            if r not in ('sat', 'unsat'):
                r = 'unknown'
        except (subprocess.TimeoutExpired, OSError):
            r = 'unknown'
    finally:
        try:
            os.unlink(path)
        except OSError:
            pass
    return r, time.time() - t0
