"""D4 (C01 symtable.regPostponedSyms.saturated): a chain of forward references whose links are declared in
dependency-reversed order and stand last in the module is not resolved: registration of postponed symbols
makes a single pass.  exit 1 = defect present."""
import sys, os
sys.path.insert(0, os.environ.get('VERIF_REPO', '/repo'))
from pysmi.parser.smi import parserFactory
from pysmi.codegen.symtable import SymtableCodeGen
from pysmi import error
T = """T-MIB DEFINITIONS ::= BEGIN
A ::= B
B ::= C
C ::= INTEGER
END
"""
tree = parserFactory()().parse(T)[0]
try:
    mi, tab = SymtableCodeGen().genCode(tree, {})
    print('ok:', tab['_symtable_order'])
    sys.exit(0)
except error.PySmiError as e:
    print('DEFECT D4: a valid module whose references all resolve is rejected: %s' % e)
    sys.exit(1)
