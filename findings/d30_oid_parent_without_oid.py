"""D30 (C07 no_escape / C01): an OID whose parent symbol has no OID (a type name): KeyError escapes compile().
exit 1 = defect present."""
import sys, os
sys.path.insert(0, os.environ.get('VERIF_REPO', '/repo'))
from pysmi.reader.callback import CallbackReader
from pysmi.searcher.stub import StubSearcher
from pysmi.writer.callback import CallbackWriter
from pysmi.parser.smi import parserFactory
from pysmi.codegen.jsondoc import JsonCodeGen
from pysmi.compiler import MibCompiler
T = """T-MIB DEFINITIONS ::= BEGIN
MyType ::= INTEGER
x OBJECT IDENTIFIER ::= { MyType 1 }
END
"""
c = MibCompiler(parserFactory()(), JsonCodeGen(), CallbackWriter(lambda n, d, ctx: None))
c.addSources(CallbackReader(lambda n, ctx: T if n == 'T-MIB' else ''))
c.addSearchers(StubSearcher(*JsonCodeGen.baseMibs))
try:
    r = c.compile('T-MIB', ignoreErrors=True)
    print({k: (str(v), str(getattr(v,'error',None))) for k, v in r.items()})
    sys.exit(0)
except Exception as e:
    print('DEFECT: escaped compile():', type(e), e)
    sys.exit(1)
