"""D33 (C18): genIndex reduces the OID entries inside the per-module loop: the result depends on the module order and
indexing the same results again on top of the index changes it.  exit 10 = reproduced, 0 = not"""
import json, sys
from pysmi.codegen.jsondoc import JsonCodeGen
from pysmi.compiler import statusCompiled
st = lambda oids: statusCompiled.setOptions(oids=set(oids), identity=None, enterprise=None, compliance=[])
g = JsonCodeGen()
res = lambda: {'M0': st(['1.3', '1.3.4']), 'M1': st(['1.3.4'])}
t1 = g.genIndex(res())
t2 = g.genIndex(res(), old_index_data=t1)
print(json.loads(t1)['oids'], '->', json.loads(t2)['oids'])
sys.exit(10 if json.loads(t1) != json.loads(t2) else 0)
