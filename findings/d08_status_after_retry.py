"""D8 (C07 status_iff_written): source 1 holds a broken copy, source 2 a good one.
The module is compiled from source 2 and written, but its status stays 'failed'.
Run: /venv/bin/python findings/d08_status_after_retry.py   (exit 1 = defect present)"""
import sys, os
sys.path.insert(0, os.environ.get('VERIF_REPO', '/repo'))
from pysmi.reader.callback import CallbackReader
from pysmi.searcher.stub import StubSearcher
from pysmi.writer.callback import CallbackWriter
from pysmi.parser.smi import parserFactory
from pysmi.codegen.jsondoc import JsonCodeGen
from pysmi.compiler import MibCompiler

GOOD = "T-MIB DEFINITIONS ::= BEGIN\n t OBJECT IDENTIFIER ::= { iso 3 }\nEND\n"
BAD = "T-MIB DEFINITIONS ::= BEGIN\n t OBJECT IDENTIFIER ::= { iso 3 \nEND\n"
written = {}
c = MibCompiler(parserFactory()(), JsonCodeGen(), CallbackWriter(lambda n, d, ctx: written.__setitem__(n, d)))
c.addSources(CallbackReader(lambda n, ctx: BAD if n == 'T-MIB' else ''),
             CallbackReader(lambda n, ctx: GOOD if n == 'T-MIB' else ''))
c.addSearchers(StubSearcher(*JsonCodeGen.baseMibs))
r = c.compile('T-MIB', ignoreErrors=True)
print('status:', dict((k, str(v)) for k, v in r.items()), 'written:', sorted(written))
bad = 'T-MIB' in written and r.get('T-MIB') != 'compiled'
print('DEFECT: written but status %r' % str(r.get('T-MIB')) if bad else 'ok')
sys.exit(1 if bad else 0)
