"""D26 (C15): PRODUCT-RELEASE and DISPLAY-HINT texts bypass the text filter: with the default (whitespace
normalising) filter DESCRIPTION is normalised while these two keep their line breaks and indentation.
exit 1 = defect present."""
import sys, os, json
sys.path.insert(0, os.environ.get('VERIF_REPO', '/repo'))
from pysmi.parser.smi import parserFactory
from pysmi.codegen.symtable import SymtableCodeGen
from pysmi.codegen.jsondoc import JsonCodeGen
T = '''T-MIB DEFINITIONS ::= BEGIN
Dh ::= TEXTUAL-CONVENTION DISPLAY-HINT "1x:
     1x" STATUS current DESCRIPTION "two
      lines" SYNTAX OCTET STRING
cap AGENT-CAPABILITIES PRODUCT-RELEASE "rel  one
      two" STATUS current DESCRIPTION "d  e
      f" ::= { iso 3 }
END
'''
tree = parserFactory()().parse(T)[0]
st = {}
mi, tab = SymtableCodeGen().genCode(tree, st)
st[mi.name] = tab
mi, text = JsonCodeGen().genCode(tree, st, genTexts=True)
doc = json.loads(text)
bad = 0
for sym, member in (('cap', 'productrelease'), ('Dh', 'displayhint'), ('cap', 'description')):
    v = doc[sym][member]
    print('%s.%s = %r' % (sym, member, v))
    if '\n' in v:
        print('DEFECT D26: %s.%s is not whitespace-normalised under the default filter' % (sym, member)); bad = 1
sys.exit(bad)
