"""D5 (C12): IntermediateCodeGen.genCode does not reset _moduleRevision: a module without MODULE-IDENTITY compiled
after one with a REVISION reports the earlier module's revision.   exit 10 = reproduced, 0 = not"""
import sys
from pysmi.parser.smi import parserFactory
from pysmi.codegen.symtable import SymtableCodeGen
from pysmi.codegen.jsondoc import JsonCodeGen

A = """A-MIB DEFINITIONS ::= BEGIN
aMod MODULE-IDENTITY
    LAST-UPDATED "200201010000Z"
    ORGANIZATION "o"
    CONTACT-INFO "c"
    DESCRIPTION "d"
    REVISION "200201010000Z"
    DESCRIPTION "r"
    ::= { iso 3 }
END
"""
B = """B-MIB DEFINITIONS ::= BEGIN
bRoot OBJECT IDENTIFIER ::= { iso 4 }
END
"""
parser = parserFactory()()
gen = JsonCodeGen()
tables = {}
infos = {}
for text in (A, B):
    tree = parser.parse(text)[0]
    info, tab = SymtableCodeGen().genCode(tree, tables)
    tables[info.name] = tab
    infos[info.name] = gen.genCode(tree, tables)[0]
fresh = JsonCodeGen().genCode(parser.parse(B)[0], tables)[0]
print('B-MIB revision after A-MIB:', infos['B-MIB'].revision, '| compiled alone:', fresh.revision)
sys.exit(10 if infos['B-MIB'].revision != fresh.revision else 0)
