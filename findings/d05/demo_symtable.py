"""D5b (C12): SymtableCodeGen.genCode does not reset _moduleRevision either (second site of D5). exit 10 = reproduced"""
import sys
from pysmi.parser.smi import parserFactory
from pysmi.codegen.symtable import SymtableCodeGen
A = """A-MIB DEFINITIONS ::= BEGIN
aMod MODULE-IDENTITY
    LAST-UPDATED "200201010000Z"
    ORGANIZATION "o"
    CONTACT-INFO "c"
    DESCRIPTION "d"
    REVISION "200201010000Z"
    DESCRIPTION "r"
    ::= { iso 3 }
END
"""
B = "B-MIB DEFINITIONS ::= BEGIN\nbRoot OBJECT IDENTIFIER ::= { iso 4 }\nEND\n"
parser = parserFactory()()
gen = SymtableCodeGen()
tables = {}
for text in (A, B):
    tree = parser.parse(text)[0]
    info, tab = gen.genCode(tree, tables)
    tables[info.name] = tab
    print(info.name, info.revision)
fresh = SymtableCodeGen().genCode(parser.parse(B)[0], tables)[0]
print('alone', fresh.revision)
sys.exit(10 if info.revision != fresh.revision else 0)
