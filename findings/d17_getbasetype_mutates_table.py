"""D17 (C05/C12 getBaseType.frame): resolving the base type of a derived enumeration type extends the symbol
table's own list in place (symSubtype += baseSymSubtype): every look-up appends another copy of the base
enumeration to the table entry.  exit 1 = defect present."""
import sys, os
sys.path.insert(0, os.environ.get('VERIF_REPO', '/repo'))
from pysmi.parser.smi import parserFactory
from pysmi.codegen.symtable import SymtableCodeGen
from pysmi.codegen.jsondoc import JsonCodeGen
T = """T-MIB DEFINITIONS ::= BEGIN
Color ::= INTEGER { red(1), green(2), blue(3), black(4) }
Shade ::= Color { red(1) }
a OBJECT-TYPE SYNTAX Shade MAX-ACCESS read-only STATUS current DESCRIPTION "x" DEFVAL { red } ::= { iso 1 }
b OBJECT-TYPE SYNTAX Shade MAX-ACCESS read-only STATUS current DESCRIPTION "x" DEFVAL { red } ::= { iso 2 }
END
"""
tree = parserFactory()().parse(T)[0]
st = {}
mi, tab = SymtableCodeGen().genCode(tree, st)
st[mi.name] = tab
before = len(tab['Shade']['syntax'][1])
JsonCodeGen().genCode(tree, st)
after = len(tab['Shade']['syntax'][1])
print('enumeration entries of Shade in the symbol table: before %d, after code generation %d' % (before, after))
if after != before:
    print('DEFECT D17: the symbol table was modified by getBaseType')
sys.exit(1 if after != before else 0)
