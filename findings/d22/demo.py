"""D22: a module with several undefined OID parents: which one the 'Unknown parent symbol' error names depended on
the iteration order of a set, i.e. on the interpreter's hash seed.  Exit 10 = reproduced, 0 = not."""
import subprocess, sys, os
CODE = r'''
from pysmi.parser.smi import parserFactory
from pysmi.codegen.symtable import SymtableCodeGen
T = """T-MIB DEFINITIONS ::= BEGIN
a OBJECT IDENTIFIER ::= { alpha 1 }
b OBJECT IDENTIFIER ::= { beta 1 }
c OBJECT IDENTIFIER ::= { gamma 1 }
d OBJECT IDENTIFIER ::= { delta 1 }
END
"""
tree = parserFactory()().parse(T)[0]
try:
    SymtableCodeGen().genCode(tree, {})
    print('no error')
except Exception as e:
    print(e)
'''
outs = set()
for seed in ('1', '2', '3', '4', '5', '6'):
    env = dict(os.environ, PYTHONHASHSEED=seed)
    outs.add(subprocess.run([sys.executable, '-c', CODE], capture_output=True, text=True, env=env).stdout.strip())
for o in sorted(outs):
    print(o)
print('REPRODUCED: %d different errors under 6 hash seeds' % len(outs) if len(outs) > 1 else 'same error under every seed')
sys.exit(10 if len(outs) > 1 else 0)
