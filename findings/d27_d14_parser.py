"""D27: DEFVAL { 0 } is dropped by the grammar action (integer 0 is falsy).
D14: GROUP clauses that follow an OBJECT refinement in a MODULE-COMPLIANCE are lost.
exit 1 = a defect is present."""
import sys, os, json
sys.path.insert(0, os.environ.get('VERIF_REPO', '/repo'))
from pysmi.parser.smi import parserFactory
T = """T-MIB DEFINITIONS ::= BEGIN
a OBJECT-TYPE SYNTAX INTEGER MAX-ACCESS read-only STATUS current DESCRIPTION "x" DEFVAL { 0 } ::= { iso 1 }
b OBJECT-TYPE SYNTAX INTEGER MAX-ACCESS read-only STATUS current DESCRIPTION "x" DEFVAL { 1 } ::= { iso 2 }
c MODULE-COMPLIANCE STATUS current DESCRIPTION "x"
  MODULE MANDATORY-GROUPS { g0 }
  OBJECT a MIN-ACCESS read-only DESCRIPTION "y"
  GROUP g1 DESCRIPTION "y"
  GROUP g2 DESCRIPTION "y"
  ::= { iso 3 }
END
"""
tree = parserFactory()().parse(T)[0]
decls = tree[3]
bad = 0
print('a DEFVAL slot:', decls[0][10], ' b DEFVAL slot:', decls[1][10])
if decls[0][10] is None:
    print('DEFECT D27: DEFVAL { 0 } lost'); bad = 1
groups = decls[2][5][1][0][1]
print('compliance groups:', groups)
if groups != ['g0', 'g1', 'g2']:
    print('DEFECT D14: groups after an OBJECT clause lost'); bad = 1
sys.exit(bad)
