"""D21 (open): a fetched file that holds several modules, or a module named unlike the request, breaks the
parsed-xor-failed bookkeeping of MibCompiler.compile.  Exit 10 = reproduced, 0 = not."""
import sys
from pysmi.compiler import MibCompiler
from pysmi.parser.smi import parserFactory
from pysmi.codegen.jsondoc import JsonCodeGen
from pysmi.reader.callback import CallbackReader
from pysmi.searcher.stub import StubSearcher
from pysmi.writer.callback import CallbackWriter

A = 'A-MIB DEFINITIONS ::= BEGIN a OBJECT IDENTIFIER ::= { iso 1 } END\n'
B_BAD = 'B-MIB DEFINITIONS ::= BEGIN b OBJECT IDENTIFIER ::= { iso 2 } b OBJECT IDENTIFIER ::= { iso 3 } END\n'
texts = {'A-MIB': A + B_BAD}
written = {}
c = MibCompiler(parserFactory()(), JsonCodeGen(), CallbackWriter(lambda n, d, ctx: written.__setitem__(n, d)))
c.addSources(CallbackReader(lambda n, ctx: texts.get(n, '')))
c.addSearchers(StubSearcher(*JsonCodeGen.baseMibs))
r = c.compile('A-MIB', ignoreErrors=True)
print({k: str(v) for k, v in r.items()}, 'written:', sorted(written))
bad = 'A-MIB' in written and str(r['A-MIB']) == 'failed'
print('REPRODUCED: A-MIB was generated and written, yet it is reported failed' if bad else 'not reproduced')
sys.exit(10 if bad else 0)
