"""D29 (C07 no_escape / C10): a byte-code file that holds the magic number but fewer than 8 bytes makes
PyFileSearcher.fileExists raise struct.error, which is not the package's error type and escapes compile().
exit 1 = defect present."""
import os, sys, tempfile, shutil, importlib.util
sys.path.insert(0, os.environ.get('VERIF_REPO', '/repo'))
from pysmi.searcher.pyfile import PyFileSearcher
from pysmi import error
d = tempfile.mkdtemp()
try:
    with open(os.path.join(d, 'M.pyc'), 'wb') as f:
        f.write(importlib.util.MAGIC_NUMBER + b'\x01\x02')
    try:
        PyFileSearcher(d).fileExists('M', 10)
        rc = 0
    except error.PySmiError as e:
        print('ok: package error %r' % (e,)); rc = 0
    except Exception as e:     # noqa
        print('DEFECT: %s: %s escapes fileExists' % (type(e).__module__ + '.' + type(e).__name__, e)); rc = 1
finally:
    shutil.rmtree(d)
sys.exit(rc)
