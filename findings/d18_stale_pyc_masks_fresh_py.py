"""D18 (C10 PyFileSearcher.fresh_iff_not_modified): a stale byte-code file beside a fresh source file.
The searcher answers 'older file exists' (not found) although MOD.py is newer than the MIB source, so the
module is regenerated needlessly.  exit 1 = defect present."""
import os, sys, struct, tempfile, shutil, importlib.util
sys.path.insert(0, os.environ.get('VERIF_REPO', '/repo'))
from pysmi.searcher.pyfile import PyFileSearcher
from pysmi import error
d = tempfile.mkdtemp()
try:
    src_mtime = 1000
    with open(os.path.join(d, 'MOD.py'), 'w') as f:
        f.write('x = 1\n')
    os.utime(os.path.join(d, 'MOD.py'), (2000, 2000))          # source file newer than the MIB
    with open(os.path.join(d, 'MOD.pyc'), 'wb') as f:          # byte code stamped older than the MIB
        f.write(importlib.util.MAGIC_NUMBER + struct.pack('<L', 500) + b'\0' * 8)
    try:
        PyFileSearcher(d).fileExists('MOD', src_mtime)
        print('returned'); rc = 1
    except error.PySmiFileNotModifiedError:
        print('ok: up to date'); rc = 0
    except error.PySmiFileNotFoundError as e:
        print('DEFECT: %s although MOD.py (mtime 2000) is newer than the source (mtime 1000)' % e); rc = 1
finally:
    shutil.rmtree(d)
sys.exit(rc)
