"""D13 / D20 (fixed): compile() fetched a name again and again when its file held a module of another name
(never returning on an import cycle through that name), and left a requested name out of the result when the
file found for it held no module at all.  Exit 10 = reproduced, 0 = not."""
import sys, signal
from pysmi.compiler import MibCompiler
from pysmi.parser.smi import parserFactory
from pysmi.codegen.jsondoc import JsonCodeGen
from pysmi.reader.callback import CallbackReader
from pysmi.searcher.stub import StubSearcher
from pysmi.writer.callback import CallbackWriter


def mk(texts, calls):
    def rd(name, ctx):
        calls.append(name)
        return texts.get(name, '')
    c = MibCompiler(parserFactory()(), JsonCodeGen(), CallbackWriter(lambda n, d, c: None))
    c.addSources(CallbackReader(rd))
    c.addSearchers(StubSearcher(*JsonCodeGen.baseMibs))
    return c


def timeout(*a):
    raise TimeoutError()


bad = 0
calls = []
c = mk({'Foo-MIB': 'FOO-MIB DEFINITIONS ::= BEGIN IMPORTS x FROM Foo-MIB; y OBJECT IDENTIFIER ::= { iso 1 } END'}, calls)
signal.signal(signal.SIGALRM, timeout)
signal.alarm(5)
try:
    r = c.compile('Foo-MIB')
    signal.alarm(0)
    n = calls.count('Foo-MIB')
    print('D13: compile returned', {k: str(v) for k, v in r.items()}, '- Foo-MIB fetched', n, 'time(s)')
    if n > 1:
        bad = 10
except TimeoutError:
    print('D13 REPRODUCED: compile did not return within 5 s; Foo-MIB fetched', calls.count('Foo-MIB'), 'times')
    bad = 10
calls = []
r = mk({'E-MIB': '-- nothing here\n'}, calls).compile('E-MIB')
print('D20: result for a file without any module:', {k: str(v) for k, v in r.items()})
if 'E-MIB' not in r:
    print('D20 REPRODUCED: the requested name has no status')
    bad = 10
sys.exit(bad)
