"""D6: the order of the symbols inside the "imports" record of the JSON document (and of importSymbols() in pysnmp
output) came from set() iteration: it differed between interpreter hash seeds.  Exit 10 = reproduced, 0 = not."""
import subprocess, sys, os
CODE = r'''
from pysmi.parser.smi import parserFactory
from pysmi.codegen.symtable import SymtableCodeGen
from pysmi.codegen.jsondoc import JsonCodeGen
T = """T-MIB DEFINITIONS ::= BEGIN
IMPORTS alpha, beta, gamma, delta, epsilon, zeta, eta, theta FROM X-MIB;
x OBJECT IDENTIFIER ::= { iso 1 }
END
"""
tree = parserFactory()().parse(T)[0]
mi, st = SymtableCodeGen().genCode(tree, {})
mi2, text = JsonCodeGen().genCode(tree, {mi.name: st})
import json
print(json.loads(text)['imports']['X-MIB'])
'''
outs = set()
for seed in ('1', '2', '3', '4'):
    env = dict(os.environ, PYTHONHASHSEED=seed)
    outs.add(subprocess.run([sys.executable, '-c', CODE], capture_output=True, text=True, env=env).stdout.strip())
for o in sorted(outs, key=str):
    print(o)
print('REPRODUCED: %d different orders under 4 hash seeds' % len(outs) if len(outs) > 1 else 'same output under every seed')
sys.exit(10 if len(outs) > 1 else 0)
