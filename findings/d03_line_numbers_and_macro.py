"""D3a (C11 line accounting): line ends inside MACRO / EXPORTS / CHOICE bodies are not counted, so an error
after such a block is reported with too small a line number.
D3b (C11 error type): an unterminated MACRO makes PLY raise its own LexError instead of the package error.
D2  (C11 truncated input): text that ends inside a module parses to an empty result instead of an error.
D1  (C12): after a failed parse the lexer is not reset: the next parse starts at the old line number.
exit 1 = a defect is present."""
import sys, os
sys.path.insert(0, os.environ.get('VERIF_REPO', '/repo'))
from pysmi.parser.smi import parserFactory
from pysmi import error
bad = 0

def err_line(text, parser=None):
    p = parser or parserFactory()()
    try:
        r = p.parse(text)
        return ('returned', r)
    except error.PySmiError as e:
        return ('pysmi', getattr(e, 'lineno', None))
    except Exception as e:      # noqa
        return ('other', type(e).__name__)

T_MACRO = "T-MIB DEFINITIONS ::= BEGIN\nOBJECT-TYPE MACRO ::=\nBEGIN\n x\n y\nEND\n ::= ::=\nEND\n"
r = err_line(T_MACRO)
print('error after a 4-line MACRO body (the bad token is on line 7):', r)
if r != ('pysmi', 7):
    print('DEFECT D3a: wrong line number'); bad = 1
r = err_line("T-MIB DEFINITIONS ::= BEGIN\nOBJECT-TYPE MACRO ::=\nBEGIN\n x\n")
print('unterminated MACRO:', r)
if r[0] != 'pysmi':
    print('DEFECT D3b: not the package error'); bad = 1
r = err_line("T-MIB DEFINITIONS ::= BEGIN\n x OBJECT IDENTIFIER ::= { iso 3 }\n")
print('truncated module:', r)
if r[0] != 'pysmi':
    print('DEFECT D2: truncated input accepted as an empty result'); bad = 1
p = parserFactory()()
first = err_line("T-MIB DEFINITIONS ::= BEGIN\n\n ::= ::=\nEND\n", p)
second = err_line("T-MIB DEFINITIONS ::= BEGIN\n\n ::= ::=\nEND\n", p)
print('same bad text twice through one parser:', first, second)
if first != second:
    print('DEFECT D1: the lexer was not reset after the failed parse'); bad = 1
sys.exit(bad)
