"""D32 (C03/C07): JsonCodeGen.genCode with the dstTemplate option crashes with AttributeError (searchPath is a str,
.insert is a list method; PySnmpCodeGen uses a list).  exit 10 = reproduced, 0 = not"""
import sys
from pysmi.parser.smi import parserFactory
from pysmi.codegen.symtable import SymtableCodeGen
from pysmi.codegen.jsondoc import JsonCodeGen
from pysmi import error
B = "B-MIB DEFINITIONS ::= BEGIN\nbRoot OBJECT IDENTIFIER ::= { iso 4 }\nEND\n"
tree = parserFactory()().parse(B)[0]
info, tab = SymtableCodeGen().genCode(tree, {})
try:
    JsonCodeGen().genCode(tree, {'B-MIB': tab}, dstTemplate='/nonexistent/x.j2')
except error.PySmiError as e:
    print('package error:', e)
    sys.exit(0)
except Exception as e:
    print('escaped:', type(e).__name__, e)
    sys.exit(10)
sys.exit(0)
