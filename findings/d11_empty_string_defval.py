"""D11 (C05 genDefVal.text_between_the_quotes): DEFVAL { "" } on an OCTET STRING object is dropped: the guard
compares the (type, subtype) tuple with the string 'OctetString'.  exit 1 = defect present."""
import sys, os, json
sys.path.insert(0, os.environ.get('VERIF_REPO', '/repo'))
from pysmi.parser.smi import parserFactory
from pysmi.codegen.symtable import SymtableCodeGen
from pysmi.codegen.jsondoc import JsonCodeGen
T = """T-MIB DEFINITIONS ::= BEGIN
a OBJECT-TYPE SYNTAX OCTET STRING MAX-ACCESS read-only STATUS current DESCRIPTION "x" DEFVAL { "" } ::= { iso 1 }
b OBJECT-TYPE SYNTAX OCTET STRING MAX-ACCESS read-only STATUS current DESCRIPTION "x" DEFVAL { "z" } ::= { iso 2 }
END
"""
tree = parserFactory()().parse(T)[0]
st = {}
mi, tab = SymtableCodeGen().genCode(tree, st)
st[mi.name] = tab
doc = json.loads(JsonCodeGen().genCode(tree, st)[1])
print('a.default =', doc['a'].get('default'), ' b.default =', doc['b'].get('default'))
bad = 'default' not in doc['a']
if bad:
    print('DEFECT D11: the empty string default of an OCTET STRING object was dropped')
sys.exit(1 if bad else 0)
