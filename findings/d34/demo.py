from pysmi.parser.smi import parserFactory
from pysmi.parser.dialect import smiV1Relaxed
from pysmi.codegen.symtable import SymtableCodeGen
from pysmi.codegen.jsondoc import JsonCodeGen
T = """%s DEFINITIONS ::= BEGIN
IMPORTS OBJECT-TYPE FROM RFC-1212 enterprises FROM RFC1155-SMI;
t OBJECT-TYPE SYNTAX SEQUENCE OF E ACCESS not-accessible STATUS mandatory ::= { enterprises 1 }
e OBJECT-TYPE SYNTAX E ACCESS not-accessible STATUS mandatory INDEX { INTEGER } ::= { t 1 }
E ::= SEQUENCE { c INTEGER }
c OBJECT-TYPE SYNTAX INTEGER ACCESS read-only STATUS mandatory ::= { e 1 }
END
"""
p = parserFactory(**smiV1Relaxed)()
def run(gen, name):
    tree = p.parse(T % name)[0]
    try:
        mi, st = gen.genCode(tree, {})
        return sorted(k for k in st if 'Fake' in k)
    except Exception as e:
        return repr(e)
g = SymtableCodeGen()
a, b = run(g, "A-MIB"), run(g, "B-MIB")
c = run(SymtableCodeGen(), "B-MIB")
print("reused generator:", a, b, " fresh generator:", c)
import sys
sys.exit(10 if b != c else 0)
