"""D23 / D24: the noDeps option and explicitly requested modules.
D23: a requested module whose file is found under a case variant of its name (fileInfo.name != requested name) is treated
     as a dependency under noDeps: reported untouched, nothing generated.
D24: a requested module that no source can supply stays missing under noDeps although a borrower holds it.
Exit 10 = reproduced, 0 = not."""
import sys
from pysmi.compiler import MibCompiler
from pysmi.parser.smi import parserFactory
from pysmi.codegen.jsondoc import JsonCodeGen
from pysmi.reader.base import AbstractReader
from pysmi.searcher.stub import StubSearcher
from pysmi.writer.callback import CallbackWriter
from pysmi.borrower.base import AbstractBorrower
from pysmi.mibinfo import MibInfo
from pysmi import error

TEXT = 'FOO-MIB DEFINITIONS ::= BEGIN x OBJECT IDENTIFIER ::= { iso 1 } END\n'


class VariantReader(AbstractReader):
    """holds foo-mib.txt: a request for FOO-MIB is served under the lower-case variant, as FileReader does"""
    def getData(self, mibname, **options):
        if mibname.upper() == 'FOO-MIB':
            return MibInfo(path='file:///x/foo-mib.txt', file='foo-mib.txt', name='foo-mib', mtime=1), TEXT
        raise error.PySmiReaderFileNotFoundError('no %s' % mibname, reader=self)


class BorrowReader(AbstractReader):
    def getData(self, mibname, **options):
        if mibname == 'X-MIB':
            return MibInfo(path='file:///b/X-MIB.json', file='X-MIB.json', name='X-MIB', mtime=1), '{"borrowed": true}'
        raise error.PySmiReaderFileNotFoundError('no %s' % mibname, reader=self)


def mk(reader, borrower=None):
    written = {}
    c = MibCompiler(parserFactory()(), JsonCodeGen(), CallbackWriter(lambda n, d, ctx: written.__setitem__(n, d)))
    c.addSources(reader)
    c.addSearchers(StubSearcher(*JsonCodeGen.baseMibs))
    if borrower:
        c.addBorrowers(borrower)
    return c, written


bad = 0
c, w = mk(VariantReader())
r = c.compile('FOO-MIB', noDeps=True, ignoreErrors=True)
print('D23:', {k: str(v) for k, v in r.items()}, 'written:', sorted(w))
if str(r.get('FOO-MIB')) != 'compiled':
    print('D23 REPRODUCED: the explicitly requested FOO-MIB is not generated under noDeps')
    bad = 10
c, w = mk(VariantReader(), AbstractBorrower(BorrowReader(), genTexts=False))
r = c.compile('X-MIB', noDeps=True, ignoreErrors=True, genTexts=False)
print('D24:', {k: str(v) for k, v in r.items()}, 'written:', sorted(w))
if str(r.get('X-MIB')) != 'borrowed':
    print('D24 REPRODUCED: the explicitly requested X-MIB is not borrowed under noDeps')
    bad = 10
sys.exit(bad)
