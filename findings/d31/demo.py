"""D31 (C17): INDEX { 0 } parses to a different tree under a dialect with supportIndex.
SupportIndex.p_Index uses `isinstance(p[1], tuple) and p[1][1][0] or p[1]`: a falsy first sub-identifier (the
number 0) falls through to the whole ('objectIdentifier', [0]) tuple, while SmiV2Parser.p_Index returns 0.
exit 10 = reproduced, 0 = not reproduced"""
import sys
from pysmi.parser.smi import parserFactory
from pysmi.parser.dialect import smiV1, smiV2

TEXT = """T-MIB DEFINITIONS ::= BEGIN
tEntry OBJECT-TYPE
    SYNTAX      INTEGER
    MAX-ACCESS  not-accessible
    STATUS      current
    DESCRIPTION "x"
    INDEX       { 0 }
    ::= { tTable 1 }
END
"""
a = parserFactory(**smiV2)().parse(TEXT)
b = parserFactory(**smiV1)().parse(TEXT)
print('smiV2:', a)
print('smiV1:', b)
sys.exit(10 if a != b else 0)
