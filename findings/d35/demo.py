"""D35: symbols imported from RFC1158-MIB that live on in SNMPv2-MIB (sysDescr, snmpInPkts, ...) were not rewritten: the
conversion table of RFC1158-MIB was built on the RFC1155-SMI symbols instead of the symbols shared with RFC1213-MIB.
Exit 10 = reproduced, 0 = not."""
import sys, json
from pysmi.parser.smi import parserFactory
from pysmi.parser.dialect import smiV1Relaxed
from pysmi.codegen.symtable import SymtableCodeGen
from pysmi.codegen.jsondoc import JsonCodeGen

T = """T-MIB DEFINITIONS ::= BEGIN
IMPORTS sysDescr, snmpInPkts FROM %s;
x OBJECT IDENTIFIER ::= { iso 1 }
END
"""


def imports_of(v1module):
    tree = parserFactory(**smiV1Relaxed)().parse(T % v1module)[0]
    mi, st = SymtableCodeGen().genCode(tree, {})
    return mi.imported, {k: v for k, v in json.loads(JsonCodeGen().genCode(tree, {mi.name: st})[1])['imports'].items()
                         if k != 'class'}


a = imports_of('RFC1213-MIB')
b = imports_of('RFC1158-MIB')
print('FROM RFC1213-MIB ->', a[1])
print('FROM RFC1158-MIB ->', b[1])
bad = 'sysDescr' in b[1].get('RFC1158-MIB', []) or 'sysDescr' not in b[1].get('SNMPv2-MIB', [])
print('REPRODUCED: sysDescr FROM RFC1158-MIB is not imported from SNMPv2-MIB' if bad else 'rewritten alike')
sys.exit(10 if bad else 0)
