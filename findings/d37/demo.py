"""D37: AbstractReader.getMibVariants with original/upper-case/lower-case matching off and fuzzy matching on raised
IndexError.  Exit 10 = reproduced, 0 = not."""
import sys
from pysmi.reader.base import AbstractReader
r = AbstractReader().setOptions(originalMatching=False, uppercaseMatching=False, lowcaseMatching=False, fuzzyMatching=True)
try:
    print(list(r.getMibVariants('IF', exts=['', '.txt'])))
    sys.exit(0)
except IndexError as e:
    print('REPRODUCED: IndexError', e)
    sys.exit(10)
