"""D16 (C06 genTableIndex.defining_module_attributed): an INDEX object imported from another module whose name
contains a hyphen is attributed to the local module (the import map is keyed by translated names, the
look-up uses the name as written).  exit 1 = defect present."""
import sys, os, json
sys.path.insert(0, os.environ.get('VERIF_REPO', '/repo'))
from pysmi.parser.smi import parserFactory
from pysmi.codegen.symtable import SymtableCodeGen
from pysmi.codegen.jsondoc import JsonCodeGen
I = """I-MIB DEFINITIONS ::= BEGIN
if-index OBJECT-TYPE SYNTAX INTEGER MAX-ACCESS read-only STATUS current DESCRIPTION "x" ::= { iso 1 }
plainIndex OBJECT-TYPE SYNTAX INTEGER MAX-ACCESS read-only STATUS current DESCRIPTION "x" ::= { iso 2 }
END
"""
T = """T-MIB DEFINITIONS ::= BEGIN
IMPORTS if-index, plainIndex FROM I-MIB;
tTable OBJECT-TYPE SYNTAX SEQUENCE OF TEntry MAX-ACCESS not-accessible STATUS current DESCRIPTION "x" ::= { iso 3 }
tEntry OBJECT-TYPE SYNTAX TEntry MAX-ACCESS not-accessible STATUS current DESCRIPTION "x"
  INDEX { if-index, plainIndex } ::= { tTable 1 }
TEntry ::= SEQUENCE { tCol INTEGER }
tCol OBJECT-TYPE SYNTAX INTEGER MAX-ACCESS read-only STATUS current DESCRIPTION "x" ::= { tEntry 1 }
END
"""
p = parserFactory()()
st = {}
sg = SymtableCodeGen()
for text in (I, T):
    tree = p.parse(text)[0]
    mi, tab = sg.genCode(tree, st)
    st[mi.name] = tab
mi, text = JsonCodeGen().genCode(tree, st)
idx = json.loads(text)['tEntry']['indices']
print(idx)
bad = [i for i in idx if i['module'] != 'I-MIB']
if bad:
    print('DEFECT D16: imported index attributed to the wrong module: %s' % bad)
sys.exit(1 if bad else 0)
