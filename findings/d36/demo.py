"""D36: members of a ZIP archive nested inside another are not found under Python 3.12 (zipfile asks the file
object for seekable(), FileLike has none; the AttributeError is swallowed).  Exit 10 = reproduced."""
import io, os, sys, tempfile, zipfile, time
from pysmi.reader.zipreader import ZipReader
from pysmi import error
def zbytes(members):
    b = io.BytesIO()
    with zipfile.ZipFile(b, 'w') as z:
        for n, d in members.items():
            z.writestr(zipfile.ZipInfo(n, date_time=(2020, 1, 2, 3, 4, 6)), d)
    return b.getvalue()
inner = zbytes({'INNER-MIB.txt': b'INNER-MIB DEFINITIONS ::= BEGIN END\n'})
mid = zbytes({'sub/inner.zip': inner, 'MID-MIB.txt': b'MID-MIB DEFINITIONS ::= BEGIN END\n'})
outer = zbytes({'a/mid.zip': mid, 'OUTER-MIB.txt': b'OUTER-MIB DEFINITIONS ::= BEGIN END\n'})
d = tempfile.mkdtemp()
p = os.path.join(d, 'mibs.zip')
open(p, 'wb').write(outer)
bad = 0
for name in ('OUTER-MIB', 'MID-MIB', 'INNER-MIB'):
    try:
        r = ZipReader(p)
        info, text = r.getData(name)
        print(name, '->', info.file, info.mtime, text.strip()[:30])
    except error.PySmiError as e:
        print(name, '-> NOT FOUND:', e)
        bad = 10
import shutil; shutil.rmtree(d)
print('REPRODUCED: a member of a nested archive is reported not-found' if bad else 'all depths found')
sys.exit(bad)
