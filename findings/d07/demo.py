"""D7 (C18): genIndex reduces OID entries by *string* prefix: 1.3.4.1 'covers' 1.3.4.10, so a module's OID loses its
covering entry.  exit 10 = reproduced, 0 = not"""
import json, sys
from pysmi.codegen.jsondoc import JsonCodeGen
from pysmi.compiler import statusCompiled
st = lambda oids: statusCompiled.setOptions(oids=set(oids), identity=None, enterprise=None, compliance=[])
idx = json.loads(JsonCodeGen().genIndex({'M0': st(['1.3.4.1', '1.3.48']), 'M1': st(['1.3.4.1', '1.3.4.10'])}))['oids']
print(idx)
covered = any(p.split('.') == '1.3.4.10'.split('.')[:len(p.split('.'))] and 'M1' in m for p, m in idx.items())
sys.exit(0 if covered else 10)
